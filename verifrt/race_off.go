//go:build verif && !race

package verifrt

// RaceBuild reports whether the race detector is compiled in.
const RaceBuild = false

func raceOff()        {}
func raceOn()         {}
func RaceErrors() int { return 0 }

func RaceOff() {}
func RaceOn()  {}
