//go:build verif

// Package verifrt is the tiny runtime that the verification overlay injects
// into the goalign module (as github.com/evolbioinfo/goalign/verifrt).
// It is never part of a shipped build: the sources carry the "verif" build
// tag and only exist in the build through `go build -overlay`.
//
// With no controller installed every entry point degenerates to the
// statement it replaced (native map order, time.Now, os.Exit, plain `go`,
// no-op yields).
package verifrt

import (
	"fmt"
	"os"
	"runtime"
	"runtime/debug"
	"sort"
	"strconv"
	"sync"
	"time"
)

// ---------------------------------------------------------------------
// R1: map iteration order
// ---------------------------------------------------------------------

var (
	seamMu   sync.Mutex
	mapSeed  uint64
	mapOn    bool
	mapSites [512]struct {
		site string
		n    uint64
	}
	nMapSites  int
	mapCalls   uint64 // number of Keys calls with >= 2 keys while a seed is installed
	clockOn    bool
	clockNs    int64
	clockReads uint64
)

func init() {
	if v := os.Getenv("VERIF_MAPSEED"); v != "" {
		s, err := strconv.ParseUint(v, 10, 64)
		if err == nil {
			mapSeed, mapOn = s, true
		}
	}
	if v := os.Getenv("VERIF_CLOCK"); v != "" {
		s, err := strconv.ParseInt(v, 10, 64)
		if err == nil {
			clockNs, clockOn = s, true
		}
	}
}

// SetMapSeed installs (on=true) or removes the map-order controller and
// resets the per-site call counters.
//
//go:norace
func SetMapSeed(seed uint64, on bool) {
	raceOff()
	seamMu.Lock()
	mapSeed, mapOn = seed, on
	nMapSites = 0
	mapCalls = 0
	seamMu.Unlock()
	raceOn()
}

// MapCalls returns how many controlled map iterations over >= 2 keys happened
// since the last SetMapSeed.
//
//go:norace
func MapCalls() uint64 {
	raceOff()
	seamMu.Lock()
	n := mapCalls
	seamMu.Unlock()
	raceOn()
	return n
}

//go:norace
func nextMapCounter(site string, nkeys int) (seed uint64, on bool, c uint64) {
	raceOff()
	seamMu.Lock()
	on = mapOn
	seed = mapSeed
	if on {
		k := -1
		for i := 0; i < nMapSites; i++ {
			if mapSites[i].site == site {
				k = i
				break
			}
		}
		if k < 0 && nMapSites < len(mapSites) {
			k = nMapSites
			mapSites[k].site = site
			mapSites[k].n = 0
			nMapSites++
		}
		if k >= 0 {
			c = mapSites[k].n
			mapSites[k].n++
		}
		if nkeys >= 2 {
			mapCalls++
		}
	}
	seamMu.Unlock()
	raceOn()
	return
}

func splitmix(x *uint64) uint64 {
	*x += 0x9e3779b97f4a7c15
	z := *x
	z = (z ^ (z >> 30)) * 0xbf58476d1ce4e5b9
	z = (z ^ (z >> 27)) * 0x94d049bb133111eb
	return z ^ (z >> 31)
}

func hashString(s string) uint64 {
	h := uint64(14695981039346656037)
	for i := 0; i < len(s); i++ {
		h ^= uint64(s[i])
		h *= 1099511628211
	}
	return h
}

func lessAny(a, b any) bool {
	switch x := a.(type) {
	case string:
		return x < b.(string)
	case int:
		return x < b.(int)
	case uint8:
		return x < b.(uint8)
	case int32:
		return x < b.(int32)
	case int64:
		return x < b.(int64)
	case uint:
		return x < b.(uint)
	case uint16:
		return x < b.(uint16)
	case uint32:
		return x < b.(uint32)
	case uint64:
		return x < b.(uint64)
	case int8:
		return x < b.(int8)
	case int16:
		return x < b.(int16)
	case float64:
		return x < b.(float64)
	case float32:
		return x < b.(float32)
	case bool:
		return !x && b.(bool)
	}
	return fmt.Sprintf("%#v", a) < fmt.Sprintf("%#v", b)
}

// Keys returns the keys of m in the order the rewritten `range` statement
// will visit them: Go's native (random) order when no map seed is installed;
// otherwise the canonical order permuted by a PRNG keyed on
// (map seed, site, number of earlier iterations at this site).
func Keys[K comparable, V any](m map[K]V, site string) []K {
	keys := make([]K, 0, len(m))
	for k := range m {
		keys = append(keys, k)
	}
	seed, on, c := nextMapCounter(site, len(keys))
	if !on || len(keys) < 2 {
		return keys
	}
	sort.Slice(keys, func(i, j int) bool { return lessAny(any(keys[i]), any(keys[j])) })
	x := seed ^ hashString(site)*0x9e3779b97f4a7c15 ^ (c+1)*0xd1342543de82ef95
	for i := len(keys) - 1; i > 0; i-- {
		j := int(splitmix(&x) % uint64(i+1))
		keys[i], keys[j] = keys[j], keys[i]
	}
	return keys
}

// ---------------------------------------------------------------------
// R2: clock
// ---------------------------------------------------------------------

// SetClock installs (on=true) or removes the simulated wall clock.
//
//go:norace
func SetClock(ns int64, on bool) {
	raceOff()
	seamMu.Lock()
	clockNs, clockOn = ns, on
	clockReads = 0
	seamMu.Unlock()
	raceOn()
}

// ClockReads returns how often the simulated clock was read since SetClock.
//
//go:norace
func ClockReads() uint64 {
	raceOff()
	seamMu.Lock()
	n := clockReads
	seamMu.Unlock()
	raceOn()
	return n
}

//go:norace
func Now() time.Time {
	raceOff()
	seamMu.Lock()
	on, ns := clockOn, clockNs
	if on {
		clockReads++
	}
	seamMu.Unlock()
	raceOn()
	if !on {
		return time.Now()
	}
	return time.Unix(0, ns)
}

// ---------------------------------------------------------------------
// R3: process exit
// ---------------------------------------------------------------------

// ExitPanic is the value verifrt.Exit panics with when an exit hook that
// converts exits into panics is installed.
type ExitPanic struct{ Code int }

func (e ExitPanic) Error() string { return "verifrt: exit(" + strconv.Itoa(e.Code) + ")" }

// ExitAsPanic makes Exit panic with ExitPanic instead of leaving the process.
var ExitAsPanic bool

// ExitHook, when set, is called first; if it returns the usual path follows.
// (It may end the calling goroutine with runtime.Goexit.)
var ExitHook func(code int)

// Goid is the runtime's number of the calling goroutine.
//
//go:norace
func Goid() int64 { return goid() }

func Exit(code int) {
	if h := ExitHook; h != nil {
		h(code)
	}
	if ExitAsPanic {
		panic(ExitPanic{code})
	}
	os.Exit(code)
}

// ---------------------------------------------------------------------
// R4: goroutine scheduling seam
// ---------------------------------------------------------------------

const (
	EvYield = iota // goroutine parked at Site, waits for Release
	EvExit         // goroutine returned
	EvPanic        // goroutine panicked (recovered by the seam), Panic holds value and stack
)

// Event is what a simulated goroutine tells the scheduler. It is passed by
// value; the scheduler and the goroutines share no memory the race detector
// can see.
type Event struct {
	Kind    int
	Gid     int
	Site    string
	Start   bool // parked before its first instruction
	Release chan struct{}
	Panic   string
	Stack   string
	Exit    int // exit code when the panic was an ExitPanic, else -1
}

const maxG = 1024

type gslot struct {
	g     int64
	id    int
	locks int
}

// Controller owns the goroutines started through Go/Spawn while installed.
type Controller struct {
	mu     sync.Mutex
	ids    [maxG]gslot
	nids   int
	nextID int
	// Arrive receives every event. It is large enough never to block a
	// goroutine in a run within the step budget.
	Arrive chan Event
	// Unowned counts goroutines started by plain `go` from an owned
	// goroutine through the seam's fallback path (should stay 0).
	Unowned int
}

var ctl *Controller

func NewController() *Controller {
	return &Controller{Arrive: make(chan Event, 2*maxG)}
}

//go:norace
func Install(c *Controller) { ctl = c }

//go:norace
func Uninstall() { ctl = nil }

//go:norace
func goid() int64 {
	var buf [64]byte
	n := runtime.Stack(buf[:], false)
	b := buf[len("goroutine "):n]
	var id int64
	for _, ch := range b {
		if ch < '0' || ch > '9' {
			break
		}
		id = id*10 + int64(ch-'0')
	}
	return id
}

//go:norace
func (c *Controller) register() int {
	g := goid()
	raceOff()
	c.mu.Lock()
	id := c.nextID
	c.nextID++
	k := c.nids
	for i := 0; i < c.nids; i++ {
		if c.ids[i].g == 0 {
			k = i
			break
		}
	}
	if k == c.nids {
		if c.nids == maxG {
			c.mu.Unlock()
			raceOn()
			panic("verifrt: too many goroutines")
		}
		c.nids++
	}
	c.ids[k] = gslot{g: g, id: id}
	c.mu.Unlock()
	raceOn()
	return id
}

//go:norace
func (c *Controller) unregister() {
	g := goid()
	raceOff()
	c.mu.Lock()
	for i := 0; i < c.nids; i++ {
		if c.ids[i].g == g {
			c.ids[i].g = 0
			break
		}
	}
	c.mu.Unlock()
	raceOn()
}

// slot returns (index, logical id, locks held) of the calling goroutine or -1.
//
//go:norace
func (c *Controller) slot() (int, int, int) {
	g := goid()
	raceOff()
	c.mu.Lock()
	k, id, locks := -1, -1, 0
	for i := 0; i < c.nids; i++ {
		if c.ids[i].g == g {
			k, id, locks = i, c.ids[i].id, c.ids[i].locks
			break
		}
	}
	c.mu.Unlock()
	raceOn()
	return k, id, locks
}

//go:norace
func (c *Controller) addLock(d int) {
	g := goid()
	raceOff()
	c.mu.Lock()
	for i := 0; i < c.nids; i++ {
		if c.ids[i].g == g {
			c.ids[i].locks += d
			break
		}
	}
	c.mu.Unlock()
	raceOn()
}

// Spawn starts f as an owned goroutine from a goroutine that is not owned
// (the scheduler itself). The child parks before its first instruction.
//
//go:norace
func (c *Controller) Spawn(site string, f func()) {
	ack := make(chan struct{})
	go goStart(c, ack, site, f)
	raceOff()
	<-ack
	raceOn()
}

// Go replaces `go func(){...}()` in rewritten goalign code.
//
//go:norace
func Go(site string, f func()) {
	c := ctl
	if c == nil {
		go f()
		return
	}
	if k, _, _ := c.slot(); k < 0 {
		go f()
		return
	}
	ack := make(chan struct{})
	go goStart(c, ack, site, f)
	raceOff()
	<-ack
	raceOn()
}

//go:norace
func goStart(c *Controller, ack chan struct{}, site string, f func()) {
	id := c.register()
	raceOff()
	ack <- struct{}{}
	raceOn()
	defer goEnd(c, id)
	park(c, id, site, true)
	f()
}

//go:norace
func goEnd(c *Controller, id int) {
	r := recover()
	c.unregister()
	ev := Event{Kind: EvExit, Gid: id, Exit: -1}
	if r != nil {
		ev.Kind = EvPanic
		if ep, ok := r.(ExitPanic); ok {
			ev.Exit = ep.Code
		}
		ev.Panic = fmt.Sprint(r)
		ev.Stack = string(debug.Stack())
	}
	raceOff()
	c.Arrive <- ev
	raceOn()
}

//go:norace
func park(c *Controller, id int, site string, start bool) {
	raceOff()
	r := Event{Kind: EvYield, Gid: id, Site: site, Start: start, Release: make(chan struct{}), Exit: -1}
	c.Arrive <- r
	<-r.Release
	raceOn()
}

// Yield is a scheduling point: the calling goroutine, if owned and not
// holding a goalign mutex, parks until the scheduler releases it.
//
//go:norace
func Yield(site string) {
	c := ctl
	if c == nil {
		return
	}
	k, id, locks := c.slot()
	if k < 0 || locks > 0 {
		return
	}
	park(c, id, site, false)
}

// YieldThen is spliced around the callee of every sync/atomic operation: atomic.LoadUint64(&x) becomes
// verifrt.YieldThen(atomic.LoadUint64, site)(&x). The callee expression is evaluated first, so the goroutine
// offers a scheduling point just before the operation: a load, a compare and a store that are three separate
// atomic operations can then be interleaved with another goroutine's.
//
//go:norace
func YieldThen[F any](f F, site string) F {
	Yield(site)
	return f
}

// Locked / Unlocked bracket the critical sections of goalign's own mutexes:
// a goroutine waiting for a sync.Mutex is not durably blocked, so a holder
// must never park.
//
//go:norace
func Locked() {
	if c := ctl; c != nil {
		c.addLock(1)
	}
}

//go:norace
func Unlocked() {
	if c := ctl; c != nil {
		c.addLock(-1)
	}
}
