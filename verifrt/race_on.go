//go:build verif && race

package verifrt

import "runtime"

// RaceBuild reports whether the race detector is compiled in.
const RaceBuild = true

func raceOff()        { runtime.RaceDisable() }
func raceOn()         { runtime.RaceEnable() }
func RaceErrors() int { return runtime.RaceErrors() }

// RaceOff / RaceOn bracket the harness's own synchronisation so that it does
// not order goalign's goroutines in the eyes of the race detector.
func RaceOff() { runtime.RaceDisable() }
func RaceOn()  { runtime.RaceEnable() }
