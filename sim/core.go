// Package sim is the harness: seeded scheduler (E1), simulated streams (E2),
// determinism seams (E3), operation histories (E4) and the per-property
// workloads and oracles. It is compiled as ONE test binary (testing/synctest
// needs a *testing.T) which cmd/vcheck runs as worker processes.
package sim

import (
	"encoding/json"
	"fmt"
	"hash/fnv"
	"sort"
	"testing"
)

// ---------------------------------------------------------------------
// one integer: splitmix64 stream
// ---------------------------------------------------------------------

type Rand struct{ s uint64 }

func NewRand(seed uint64) *Rand { return &Rand{s: seed} }

func (r *Rand) U64() uint64 {
	r.s += 0x9e3779b97f4a7c15
	z := r.s
	z = (z ^ (z >> 30)) * 0xbf58476d1ce4e5b9
	z = (z ^ (z >> 27)) * 0x94d049bb133111eb
	return z ^ (z >> 31)
}

// Intn returns a value in [0,n). n <= 0 gives 0.
func (r *Rand) Intn(n int) int {
	if n <= 1 {
		return 0
	}
	return int(r.U64() % uint64(n))
}
func (r *Rand) Bool() bool                { return r.U64()&1 == 1 }
func (r *Rand) Chance(p float64) bool     { return r.Float() < p }
func (r *Rand) Float() float64            { return float64(r.U64()>>11) / (1 << 53) }
func (r *Rand) Range(lo, hi int) int      { return lo + r.Intn(hi-lo+1) } // inclusive
func (r *Rand) Pick(xs ...int) int        { return xs[r.Intn(len(xs))] }
func (r *Rand) PickS(xs ...string) string { return xs[r.Intn(len(xs))] }
func (r *Rand) Perm(n int) []int {
	p := make([]int, n)
	for i := range p {
		p[i] = i
	}
	for i := n - 1; i > 0; i-- {
		j := r.Intn(i + 1)
		p[i], p[j] = p[j], p[i]
	}
	return p
}

// Mix derives an independent seed from a seed and labels.
func Mix(seed uint64, labels ...interface{}) uint64 {
	h := fnv.New64a()
	fmt.Fprintf(h, "%d", seed)
	for _, l := range labels {
		fmt.Fprintf(h, "|%v", l)
	}
	r := NewRand(h.Sum64())
	return r.U64()
}

// ---------------------------------------------------------------------
// property plumbing
// ---------------------------------------------------------------------

// Violation describes one failed oracle. Class is the stable key used for
// de-duplication and for matching known findings: it names the failure class
// and the goalign function / call site, never the input.
type Violation struct {
	Class  string `json:"class"`
	Detail string `json:"detail"`
}

// Outcome of one simulated run.
type Outcome struct {
	V *Violation
	// Sig identifies the explored behaviour (interleaving, fault placement,
	// history shape ...) for the distinct count; Nontrivial says whether the
	// run counts by the property's stated rule.
	Sig        uint64
	Nontrivial bool
	Stats      map[string]int64
	Sample     interface{} // a human-readable description of the case (may be nil)
}

func (o *Outcome) Add(k string, n int64) {
	if o.Stats == nil {
		o.Stats = map[string]int64{}
	}
	o.Stats[k] += n
}

func (o *Outcome) Fail(class, format string, a ...interface{}) {
	if o.V == nil {
		o.V = &Violation{Class: class, Detail: fmt.Sprintf(format, a...)}
	}
}

// Ctx is what a run gets from the worker.
type Ctx struct {
	T      *testing.T
	Tier   string
	Race   bool // this binary has the race detector and the run should use it
	Strict bool // replay: recorded choices must fit exactly (determinism self-check)
	// Diverged is set by the engines when a strict replay did not follow
	// the recorded trace.
	Diverged string
}

// Property is implemented once per claimed property.
type Property interface {
	ID() string
	// Gen builds the complete case (workload, configuration, fault plan,
	// scheduling seed) for one run seed. Deterministic.
	Gen(runseed uint64, tier string, race bool) interface{}
	// New returns an empty case to unmarshal a replay file into.
	New() interface{}
	// Run executes the case against the real code. If the case carries
	// recorded choices they are followed, otherwise they are drawn from the
	// case's seed and recorded into the case.
	Run(ctx *Ctx, c interface{}) Outcome
	// Shrink proposes simpler variants of a failing case, most aggressive
	// first.
	Shrink(c interface{}) []interface{}
	// Rule describes generation and the distinct/non-trivial rule (evidence).
	Rule() string
}

// Enumerator is implemented by properties that also sweep a finite sub-space
// exhaustively: run indices below EnumCount are the enumerated cases.
type Enumerator interface {
	EnumCount(tier string) int
	EnumCase(tier string, i int) interface{}
}

var registry = map[string]Property{}

func Register(p Property) { registry[p.ID()] = p }

func sortedKeys(m map[string]int64) []string {
	ks := make([]string, 0, len(m))
	for k := range m {
		ks = append(ks, k)
	}
	sort.Strings(ks)
	return ks
}

// Replay is the replay-file format.
type Replay struct {
	Property string          `json:"property"`
	RunSeed  uint64          `json:"runseed"`
	Tier     string          `json:"tier"`
	Race     bool            `json:"race"`
	Class    string          `json:"class"`
	Detail   string          `json:"detail"`
	Shrunk   bool            `json:"shrunk"`
	Note     string          `json:"note,omitempty"`
	Index    int             `json:"index"` // run index (only used when Case is absent: a worker that died)
	Case     json.RawMessage `json:"case"`
}

func cloneCase(p Property, c interface{}) interface{} {
	b, err := json.Marshal(c)
	if err != nil {
		panic(err)
	}
	n := p.New()
	if err := json.Unmarshal(b, n); err != nil {
		panic(err)
	}
	return n
}

func hash64(parts ...interface{}) uint64 {
	h := fnv.New64a()
	for _, p := range parts {
		fmt.Fprintf(h, "%v|", p)
	}
	return h.Sum64()
}
