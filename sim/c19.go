package sim

import (
	"fmt"
	"math/rand"
	"runtime/debug"
	"strings"

	"github.com/evolbioinfo/goalign/align"
	"github.com/evolbioinfo/goalign/distance/dna"
	"github.com/evolbioinfo/goalign/distance/protein"
	"github.com/evolbioinfo/goalign/io/clustal"
	"github.com/evolbioinfo/goalign/io/fasta"
	"github.com/evolbioinfo/goalign/io/nexus"
	"github.com/evolbioinfo/goalign/io/paml"
	"github.com/evolbioinfo/goalign/io/phylip"
	"github.com/evolbioinfo/goalign/io/stockholm"
	"github.com/evolbioinfo/goalign/verifrt"
)

// C19 — Queries never modify their input; copies share nothing with the
// original. E4 with a pool of live objects: the original and everything a
// history derives from it. A history mixes queries, copy-producing
// operations (their results join the pool) and in-place mutations of pooled
// objects. After every step every object of the pool is compared with its
// snapshot: a query changes nothing anywhere; a mutation changes its target
// only - never an object that owns its data (clone, sub-alignment, site
// selection) and, when the target owns its data, nothing else at all.
// DistMatrix and Phase under every schedule are covered by the simulated
// runs of C08 and C16, which snapshot their inputs too.

type C19Op struct {
	Kind string `json:"kind"`
	T    int    `json:"t"` // target object (mod pool size)
	U    int    `json:"u"` // second object
	I    int    `json:"i"`
	J    int    `json:"j"`
	N    int    `json:"n"`
	Flag bool   `json:"flag"`
	Seed int64  `json:"seed"`
}

type C19Case struct {
	Aln     AlnSpec `json:"aln"`
	Ops     []C19Op `json:"ops"`
	MapSeed uint64  `json:"map_seed"`
}

type c19 struct{}

func init() { Register(c19{}) }

func (c19) ID() string       { return "C19" }
func (c19) New() interface{} { return &C19Case{} }
func (c19) Rule() string {
	return "each run: a nucleotide or protein alignment (1-6 rows x 3-30 columns, gaps, ambiguity codes, some lower case, sometimes an ORF) and a history of 2-14 steps over a pool of live objects: 24 query kinds (7 writers, statistics, consensus, entropy, PSSM, count profile, DistMatrix, MLDist, pairwise alignment, LongestORF, unalign, transposition, bootstrap, site conservation, ...), 6 copy-producing kinds whose results join the pool (Clone, CloneSeqBag, SubAlign, RandSubAlign, SelectSites, Sequence.Clone) and 12 in-place mutation kinds (growing the rows by Concat, SetSequenceChar, ReplaceChar, ReverseComplement, ToLower, ToUpper, Mask, Replace, Mutate, writing through SequenceChar of a cloned Sequence) applied to any pooled object. After every step each object is compared with its snapshot (names, residues, length, alphabet). Distinct = distinct sequence of step kinds; non-trivial = at least one copy was produced and at least one object was mutated after that."
}

var c19Queries = []string{"write-fasta", "write-phylip", "write-phylip-strict", "write-nexus", "write-clustal", "write-stockholm", "write-paml", "stats", "consensus", "entropy-pssm", "profile",
	"distmatrix", "mldist", "pwalign", "longest-orf", "unalign", "transpose", "bootstrap", "conservation", "diffs", "mutlist", "string", "translate-copy", "identical", "ref-sites", "split", "phase", "sequences-list"}
var c19Copies = []string{"clone", "clone-seqbag", "sub-align", "select-sites", "seq-clone", "rand-sub-align"}
var c19Mutations = []string{"revcomp-some", "diff-with-first", "set-char", "replace-char", "revcomp", "to-lower", "to-upper", "mask", "replace", "mutate", "write-through-seq-clone", "grow"}

func (c19) Gen(rs uint64, tier string, race bool) interface{} {
	r := NewRand(rs)
	c := &C19Case{MapSeed: r.U64()}
	a := &c.Aln
	a.Alphabet = align.NUCLEOTIDS
	if r.Chance(0.35) {
		a.Alphabet = align.AMINOACIDS
	}
	n := 1 + r.Intn(6)
	l := 3 + r.Intn(28)
	lower := r.Chance(0.2)
	long := r.Chance(0.004)
	if long {
		// around and beyond a thousand columns: sizes at which an implementation may switch to another code path
		n = r.Range(2, 4)
		l = r.Pick(255, 256, 257, 999, 1000, 1001, 1024, 1500, 2100)
	}
	extra := "-"
	if r.Chance(0.06) {
		extra = "-?" // missing data as Phylip and Nexus files write it: some queries refuse it - and leave the input alone
	}
	for i := 0; i < n; i++ {
		a.Names = append(a.Names, fmt.Sprintf("s%d", i))
		a.Seqs = append(a.Seqs, genResidues(r, l, a.Alphabet, lower, extra, 0.1))
	}
	if r.Chance(0.1) {
		// names with blanks and punctuation, some of which a "clean names" step would make equal
		punct := []string{"a b", "a-b", "t.1", "t,1", "sp|P1|X", " lead", "(x)"}
		for i := range a.Names {
			a.Names[i] = punct[i%len(punct)]
		}
	}
	if a.Alphabet == align.NUCLEOTIDS && r.Chance(0.15) {
		// RNA: U is a nucleotide code too
		for i := range a.Seqs {
			a.Seqs[i] = strings.NewReplacer("T", "U", "t", "u").Replace(a.Seqs[i])
		}
	}
	if a.Alphabet == align.AMINOACIDS {
		s := []byte(a.Seqs[0])
		s[0] = 'E'
		a.Seqs[0] = string(s)
		if r.Chance(0.2) {
			// built through the API without alphabet detection: the flag says "unknown", the residues are amino acids
			a.Alphabet = align.UNKNOWN
		}
	} else if r.Chance(0.4) && l >= 12 {
		s := []byte(a.Seqs[r.Intn(n)])
		copy(s, "ATGGCTGAATAA")
		a.Seqs[0] = string(s)
	}
	nops := r.Range(2, 14)
	if long {
		nops = r.Range(2, 6)
	}
	for k := 0; k < nops; k++ {
		op := C19Op{T: r.Intn(64), U: r.Intn(64), I: r.Intn(64), J: r.Intn(64), N: r.Intn(64), Flag: r.Bool(), Seed: int64(r.U64() >> 1)}
		switch x := r.Intn(10); {
		case x < 4:
			op.Kind = c19Queries[r.Intn(len(c19Queries))]
		case x < 7:
			op.Kind = c19Copies[r.Intn(len(c19Copies))]
		default:
			op.Kind = c19Mutations[r.Intn(len(c19Mutations))]
		}
		c.Ops = append(c.Ops, op)
	}
	return c
}

type poolObj struct {
	what   string
	bag    align.SeqBag // alignment or sequence set
	seq    align.Sequence
	owns   bool // a clone, sub-alignment, site selection: owns its data by the statement
	snap   string
	parent int
}

func snapObj(p *poolObj) string {
	if p.seq != nil {
		return "seq " + p.seq.Name() + "\t" + p.seq.Sequence()
	}
	s := snapshotAlign(p.bag)
	if al, ok := p.bag.(align.Alignment); ok {
		s += fmt.Sprintf("L=%d", al.Length())
	}
	// the list of rows as Sequences() hands it out: the same rows in the same order
	for i, q := range p.bag.Sequences() {
		nm, _ := p.bag.GetSequenceNameById(i)
		sq, _ := p.bag.GetSequenceById(i)
		if q == nil || q.Name() != nm || q.Sequence() != sq {
			s += fmt.Sprintf("\nSequences()[%d] is not row %d", i, i)
		}
	}
	if k := len(p.bag.Sequences()); k != p.bag.NbSequences() {
		s += fmt.Sprintf("\nSequences() has %d entries", k)
	}
	return s
}

func (c19) Run(ctx *Ctx, ci interface{}) (o Outcome) {
	c := ci.(*C19Case)
	verifrt.SetMapSeed(c.MapSeed, true)
	defer verifrt.SetMapSeed(0, false)
	orig, err := buildOriginal(&c.Aln)
	if err == nil && c.Aln.Alphabet == align.UNKNOWN {
		orig, err = c.Aln.Build() // no alphabet detection: the flag stays "unknown"
	}
	if err != nil {
		panic("harness: " + err.Error())
	}
	pool := []*poolObj{{what: "original", bag: orig, parent: -1}}
	pool[0].snap = snapObj(pool[0])
	var trail []string
	history := func() string {
		var sb strings.Builder
		sb.WriteString("original alignment:\n" + c.Aln.String() + "history:\n")
		for _, t := range trail {
			sb.WriteString("  " + t + "\n")
		}
		return sb.String()
	}
	cur := ""
	fail := func(inv, format string, a ...interface{}) {
		o.Fail(inv+":"+cur, format+"\n%s", append(a, history())...)
	}
	defer func() {
		if p := recover(); p != nil {
			st := string(debug.Stack())
			if ep, ok := p.(verifrt.ExitPanic); ok {
				fail("exit", "goalign called os.Exit(%d)\n%s", ep.Code, st)
				return
			}
			fs := goalignFuncs(st)
			if len(fs) == 0 {
				panic(p)
			}
			fail("panic:"+fs[0], "panic: %v\n%s", p, st)
		}
	}()
	var kinds []string
	copies, mutatedAfterCopy := 0, 0
	for _, op := range c.Ops {
		cur = op.Kind
		ti := op.T % len(pool)
		t := pool[ti]
		al, isAl := t.bag.(align.Alignment)
		applied := true
		isMutation := false
		isQuery := false
		var produced *poolObj
		desc := fmt.Sprintf("%s on #%d (%s)", op.Kind, ti, t.what)
		if t.seq != nil && op.Kind != "write-through-seq-clone" {
			// a cloned Sequence is only a mutation target
			o.Add("steps_not_applicable", 1)
			continue
		}
		L, n := 0, 0
		if t.bag != nil {
			n = t.bag.NbSequences()
			if isAl {
				L = al.Length()
			}
		}
		switch op.Kind {
		// ---------------- queries ----------------
		case "write-fasta":
			isQuery = true
			_ = fasta.WriteAlignment(t.bag)
			_ = fasta.WriteSequences(t.bag)
		case "write-phylip", "write-phylip-strict", "write-nexus", "write-clustal", "write-stockholm", "write-paml":
			isQuery = true
			if !isAl || n == 0 {
				applied = false
				break
			}
			switch op.Kind {
			case "write-phylip":
				_ = phylip.WriteAlignment(al, false, op.Flag, op.N%2 == 0)
			case "write-phylip-strict":
				_ = phylip.WriteAlignment(al, true, op.Flag, op.N%2 == 0)
			case "write-nexus":
				_ = nexus.WriteAlignment(al)
			case "write-clustal":
				_ = clustal.WriteAlignment(al)
			case "write-stockholm":
				_ = stockholm.WriteAlignment(al)
			case "write-paml":
				_ = paml.WriteAlignment(al)
			}
		case "stats":
			isQuery = true
			_ = t.bag.CharStats()
			_ = t.bag.UniqueCharacters()
			if n > 0 {
				t.bag.CharStatsSeq(op.I % n)
			}
			_ = t.bag.DetectAlphabet()
			_ = t.bag.MaxNameLength()
			if isAl && L > 0 {
				al.CharStatsSite(op.J % L)
				_ = al.NbVariableSites()
				_ = al.InformativeSites()
				_ = al.AvgAllelesPerSite()
				al.MaxCharStats(op.Flag, op.N%2 == 0)
			}
		case "consensus":
			isQuery = true
			if !isAl || n == 0 {
				applied = false
				break
			}
			if cons := al.Consensus(op.Flag, op.N%2 == 0); cons != nil && cons.NbSequences() > 0 && cons.Length() > 0 {
				cons.SetSequenceChar(0, 0, '#') // writing to the returned object must not reach the input
			}
		case "entropy-pssm":
			isQuery = true
			if !isAl || n == 0 || L == 0 {
				applied = false
				break
			}
			al.Entropy(op.J%L, op.Flag)
			al.Pssm(op.Flag, 0.5, op.N%5)
		case "profile":
			isQuery = true
			if !isAl || n == 0 {
				applied = false
				break
			}
			prof := align.NewCountProfileFromAlignment(al)
			al.NumGapsUniquePerSequence(prof)
			al.NumMutationsUniquePerSequence(prof)
		case "conservation":
			isQuery = true
			if !isAl || n == 0 || L == 0 {
				applied = false
				break
			}
			al.SiteConservation(op.J % L)
			_ = al.Frameshifts(op.Flag)
			al.Stops(op.Flag, 0)
		case "diffs":
			isQuery = true
			if !isAl || n == 0 {
				applied = false
				break
			}
			al.CountDifferences()
			al.RefCoordinates(c.Aln.Names[0], 0, 1)
			al.InverseCoordinates(0, 1)
		case "mutlist":
			isQuery = true
			if n < 1 {
				applied = false
				break
			}
			ss := t.bag.Sequences()
			ref := ss[op.I%n]
			for _, s := range ss {
				s.NumMutationsComparedToReferenceSequence(t.bag.Alphabet(), ref)
				for _, aa := range []bool{false, true} { // per residue, and codon by codon
					ms, _ := s.ListMutationsComparedToReferenceSequence(t.bag.Alphabet(), ref, aa)
					for k := range ms {
						// the list is the caller's: its entries may be edited and grown
						if len(ms[k].Alt) > 0 {
							ms[k].Alt[0] = '#'
						}
						ms[k].Alt = append(ms[k].Alt, '#', '#')
					}
				}
				_ = s.NumGaps()
				_ = s.NumGapsFromStart()
				_ = s.NumGapsFromEnd()
			}
		case "sequences-list":
			// the list of rows the object hands out, edited by the caller: reversed, an entry overwritten, emptied
			isQuery = true
			{
				l := t.bag.Sequences()
				for i, j := 0, len(l)-1; i < j; i, j = i+1, j-1 {
					l[i], l[j] = l[j], l[i]
				}
				if len(l) > 1 && op.Flag {
					l[0] = l[len(l)-1]
				}
				if op.N%3 == 0 && len(l) > 0 {
					l = append(l[:0], l[len(l)-1])
				}
				_ = l
			}
		case "string":
			isQuery = true
			_ = t.bag.String()
			if n > 0 {
				t.bag.GetSequence(c.Aln.Names[0])
				t.bag.GetSequenceById(op.I % n)
				_ = t.bag.GetSequenceIdByName(c.Aln.Names[0])
			}
		case "ref-sites":
			isQuery = true
			if !isAl || n == 0 || L == 0 {
				applied = false
				break
			}
			nm, _ := al.GetSequenceNameById(op.I % n)
			al.RefSites(nm, []int{0, op.J % L})
			al.InversePositions([]int{op.J % L})
			al.InverseCoordinates(op.J%L, 1)
			for _, s := range al.Sequences() {
				_ = s.NumGapsOpenning()
			}
		case "split":
			isQuery = true
			if !isAl || n == 0 || L < 2 {
				applied = false
				break
			}
			ps := align.NewPartitionSet(L)
			ps.AddRange("p1", "M", 0, L/2-1+L%2, 1)
			ps.AddRange("p2", "M", L/2+L%2, L-1, 1)
			if ps.CheckSites() == nil {
				if parts, err := al.Split(ps); err == nil {
					for _, pa := range parts {
						if pa != nil && pa.NbSequences() > 0 && pa.Length() > 0 {
							pa.SetSequenceChar(0, 0, '#')
						}
					}
				}
			}
		case "phase":
			// phasing is a query on both sets it is given. A pooled object cannot serve (a sequence without any match
			// of the reference makes a worker crash, outside C16's quantifier): the two sets are drawn here, from the
			// operation's own seed, by C16's generator, and compared with their snapshots when the stream is drained
			isQuery = true
			{
				cc := c16{}.Gen(uint64(op.Seed), "quick", false).(*C16Case) // (one case in four holds a 2-nt sequence: an error result)
				orfs, seqs, _, _ := cc.bags()
				if orfs != nil && op.Flag {
					// a reference set put together through the API, its alphabet never detected
					u := align.NewSeqBag(align.UNKNOWN)
					for _, sq := range orfs.Sequences() {
						u.AddSequence(sq.Name(), sq.Sequence(), "")
					}
					orfs = u
				}
				beforeSeqs, beforeOrfs := snapshotAlign(seqs), ""
				if orfs != nil {
					beforeOrfs = snapshotAlign(orfs) + fmt.Sprint(orfs.Alphabet())
				}
				ph := align.NewPhaser()
				ph.SetCpus(1 + op.N%2)
				ph.SetReverse(cc.Reverse)
				ph.SetCutEnd(cc.CutEnd)
				ph.SetTranslate(cc.Translate, cc.Code)
				if cc.LenCut != nil {
					ph.SetLenCutoff(*cc.LenCut)
				}
				if cc.MatchCut != nil {
					ph.SetMatchCutoff(*cc.MatchCut)
				}
				var in align.SeqBag
				if orfs != nil {
					in = orfs
				}
				if ch, err := ph.Phase(in, seqs); err == nil {
					for r := range ch {
						if r.Err != nil {
							continue
						}
						for _, sq := range []align.Sequence{r.NtSeq, r.CodonSeq, r.AaSeq} { // what is returned is the caller's to edit
							if sq != nil && sq.Length() > 0 {
								sq.SequenceChar()[0] = '#'
							}
						}
					}
				}
				if snapshotAlign(seqs) != beforeSeqs {
					fail("input-modified", "Phase (or an edit of a sequence it returned) changed the sequences it was given:\nbefore:\n%s\nafter:\n%s", beforeSeqs, snapshotAlign(seqs))
					return
				}
				if orfs != nil && snapshotAlign(orfs)+fmt.Sprint(orfs.Alphabet()) != beforeOrfs {
					fail("input-modified", "Phase changed the reference ORFs it was given (translate=%v):\nbefore:\n%s\nafter:\n%s", cc.Translate, beforeOrfs, snapshotAlign(orfs)+fmt.Sprint(orfs.Alphabet()))
					return
				}
			}
		case "identical":
			isQuery = true
			u := pool[op.U%len(pool)]
			if u.bag == nil {
				applied = false
				break
			}
			_ = t.bag.Identical(u.bag)
			if op.Flag && n >= 2 {
				// the same question asked of (and about) a set in which two rows carry one name - reachable through an
				// in-place rename only; it stays outside the pool, the other operations are not defined on it
				if d, err := t.bag.CloneSeqBag(); err == nil {
					from, _ := d.GetSequenceNameById(op.I % n)
					to, _ := d.GetSequenceNameById(op.J % n)
					if from != to {
						d.Rename(map[string]string{from: to})
						before := snapshotAlign(d)
						_ = d.Identical(u.bag)
						_ = u.bag.Identical(d)
						_ = d.Identical(d)
						if after := snapshotAlign(d); after != before {
							fail("input-modified:identical", "Identical changed a sequence set in which two rows have one name (it was asked of it, or about it):\nbefore:\n%s\nafter:\n%s", before, after)
							return
						}
						o.Add("probe_identical_with_two_rows_of_one_name", 1)
					}
				}
			}
		case "distmatrix":
			isQuery = true
			if !isAl || n < 2 || al.Alphabet() != align.NUCLEOTIDS {
				applied = false
				break
			}
			mname := dnaModels[op.N%len(dnaModels)]
			mod, err := dna.Model(mname, op.Flag)
			if err != nil {
				panic("harness: " + err.Error())
			}
			dna.DistMatrix(al, nil, mod, -1, -1, -1, -1, false, 0, 1+op.I%3)
		case "mldist":
			isQuery = true
			if !isAl || n < 2 || (al.Alphabet() != align.AMINOACIDS && al.Alphabet() != align.UNKNOWN) {
				applied = false
				break
			}
			modelFreqs := op.Flag || al.Alphabet() == align.UNKNOWN // (data frequencies need the 20-letter alphabet)
			pm, err := protein.NewProtDistModel(op.N%5, modelFreqs, false, 0, op.I%2 == 0)
			if err != nil {
				applied = false
				break
			}
			if pm.InitModel(al, nil) == nil {
				pm.MLDist(al, nil)
			}
		case "pwalign":
			isQuery = true
			if n < 1 {
				applied = false
				break
			}
			ss := t.bag.Sequences()
			pa := align.NewPwAligner(ss[op.I%n], ss[op.J%n], []int{align.ALIGN_ALGO_SW, align.ALIGN_ALGO_ATG}[op.N%2])
			if pal, err := pa.Alignment(); err == nil && pal != nil && pal.NbSequences() > 0 && pal.Length() > 0 {
				pal.SetSequenceChar(0, 0, '#')
			}
			_ = pa.AlignmentStr()
			_ = pa.MaxScore()
		case "longest-orf":
			isQuery = true
			if n < 1 || t.bag.Alphabet() != align.NUCLEOTIDS {
				applied = false
				break
			}
			if orf, err := t.bag.LongestORF(op.Flag); err == nil && orf != nil && orf.Length() > 0 {
				orf.SequenceChar()[0] = '#' // the ORF that is returned is a new sequence
			}
			for _, s := range t.bag.Sequences() {
				s.LongestORF()
			}
		case "unalign":
			isQuery = true
			_ = t.bag.Unalign()
		case "transpose":
			isQuery = true
			if !isAl || n == 0 {
				applied = false
				break
			}
			if tr, err := al.Transpose(); err == nil && tr != nil && tr.NbSequences() > 0 && tr.Length() > 0 {
				tr.SetSequenceChar(0, 0, '#')
			}
		case "bootstrap":
			isQuery = true
			if !isAl || n == 0 {
				applied = false
				break
			}
			rand.Seed(op.Seed)
			b := al.BuildBootstrap([]float64{0.5, 1}[op.N%2])
			// a bootstrap replicate is a new object: writing to it must not reach the input
			if b.NbSequences() > 0 && b.Length() > 0 {
				b.SetSequenceChar(0, 0, '#')
			}
		case "translate-copy":
			isQuery = true
			if n == 0 || t.bag.Alphabet() != align.NUCLEOTIDS {
				applied = false
				break
			}
			for _, s := range t.bag.Sequences() {
				s.Translate(op.N%3, 0)
			}
		// ---------------- copies ----------------
		case "clone":
			if !isAl {
				applied = false
				break
			}
			cl, err := al.Clone()
			if err != nil {
				fail("unexpected-error", "Clone returns %v", err)
				return
			}
			produced = &poolObj{what: fmt.Sprintf("clone of #%d", ti), bag: cl, owns: true, parent: ti}
			if op.Flag && n >= 2 && L >= 1 {
				// the same for an alignment in which two rows carry one name (an in-place rename; outside the pool):
				// whatever names its clones give those rows, every row of a clone is storage of its own
				if d, err := al.Clone(); err == nil {
					from, _ := d.GetSequenceNameById(op.I % n)
					to, _ := d.GetSequenceNameById(op.J % n)
					if from != to {
						d.Rename(map[string]string{from: to})
						for _, mk := range []string{"Clone", "CloneSeqBag"} {
							var c2 align.SeqBag
							if mk == "Clone" {
								x, err := d.Clone()
								if err != nil {
									continue
								}
								c2 = x
							} else {
								x, err := d.CloneSeqBag()
								if err != nil {
									continue
								}
								c2 = x
							}
							before := snapshotAlign(d)
							for i := 0; i < c2.NbSequences(); i++ {
								if q, ok := c2.GetSequenceCharById(i); ok && len(q) > 0 {
									q[0] = '#'
								}
							}
							if after := snapshotAlign(d); after != before {
								fail("copy-shares-storage:clone", "an alignment in which two rows have one name: writing into the rows of its %s changes it:\nbefore:\n%s\nafter:\n%s", mk, before, after)
								return
							}
						}
						o.Add("probe_clone_with_two_rows_of_one_name", 1)
					}
				}
			}
		case "clone-seqbag":
			cl, err := t.bag.CloneSeqBag()
			if err != nil {
				fail("unexpected-error", "CloneSeqBag returns %v", err)
				return
			}
			produced = &poolObj{what: fmt.Sprintf("seqbag clone of #%d", ti), bag: cl, owns: true, parent: ti}
		case "sub-align":
			if !isAl || n == 0 || L == 0 {
				applied = false
				break
			}
			st := op.I % L
			ln := 1 + op.J%(L-st)
			sub, err := al.SubAlign(st, ln)
			if err != nil {
				fail("unexpected-error", "SubAlign(%d,%d) of length %d returns %v", st, ln, L, err)
				return
			}
			produced = &poolObj{what: fmt.Sprintf("sub-alignment [%d,%d) of #%d", st, st+ln, ti), bag: sub, owns: true, parent: ti}
		case "rand-sub-align":
			// the random sub-alignment (a window, or distinct columns) is a sub-alignment too
			if !isAl || n == 0 || L == 0 {
				applied = false
				break
			}
			{
				rand.Seed(op.Seed)
				ln := 1 + op.J%L
				sub, err := al.RandSubAlign(ln, op.Flag)
				if err != nil {
					fail("unexpected-error", "RandSubAlign(%d,%v) of length %d returns %v", ln, op.Flag, L, err)
					return
				}
				produced = &poolObj{what: fmt.Sprintf("random sub-alignment (%d sites, consecutive=%v) of #%d", ln, op.Flag, ti), bag: sub, owns: true, parent: ti}
			}
		case "select-sites":
			if !isAl || n == 0 || L == 0 {
				applied = false
				break
			}
			sites := []int{op.I % L, op.J % L, op.N % L}
			sel, err := al.SelectSites(sites)
			if err != nil {
				fail("unexpected-error", "SelectSites(%v) returns %v", sites, err)
				return
			}
			produced = &poolObj{what: fmt.Sprintf("site selection %v of #%d", sites, ti), bag: sel, owns: true, parent: ti}
		case "seq-clone":
			if n == 0 {
				applied = false
				break
			}
			s, _ := t.bag.Sequence(op.I % n)
			produced = &poolObj{what: fmt.Sprintf("clone of sequence %d of #%d", op.I%n, ti), seq: s.Clone(), owns: true, parent: ti}
		// ---------------- mutations ----------------
		case "revcomp-some":
			isMutation = true
			if n == 0 || t.bag.Alphabet() != align.NUCLEOTIDS {
				applied = false
				break
			}
			nm, _ := t.bag.GetSequenceNameById(op.I % n)
			t.bag.ReverseComplementSequences(nm)
		case "diff-with-first":
			isMutation = true
			if !isAl || n < 2 {
				applied = false
				break
			}
			al.DiffWithFirst()
		case "set-char":
			isMutation = true
			if n == 0 {
				applied = false
				break
			}
			s, _ := t.bag.GetSequenceById(op.I % n)
			if len(s) == 0 {
				applied = false
				break
			}
			t.bag.SetSequenceChar(op.I%n, op.J%len(s), "ACGT-N"[op.N%6])
		case "replace-char":
			isMutation = true
			if !isAl || n == 0 || L == 0 {
				applied = false
				break
			}
			nm, _ := al.GetSequenceNameById(op.I % n)
			al.ReplaceChar(nm, op.J%L, "ACGT-N"[op.N%6])
		case "revcomp":
			isMutation = true
			if t.bag.Alphabet() != align.NUCLEOTIDS {
				applied = false
				break
			}
			t.bag.ReverseComplement()
		case "to-lower":
			isMutation = true
			t.bag.ToLower()
		case "to-upper":
			isMutation = true
			t.bag.ToUpper()
		case "grow":
			// the rows get longer (the object's own columns once more): what is appended must not land in storage that
			// another object - or the next row - still uses
			isMutation = true
			if !isAl || n == 0 || L == 0 {
				applied = false
				break
			}
			if cl, err := al.Clone(); err == nil {
				al.Concat(cl)
			}
		case "mask":
			isMutation = true
			if !isAl || n == 0 || L == 0 {
				applied = false
				break
			}
			st := op.I % L
			al.Mask("", st, 1+op.J%(L-st), []string{"", "AMBIG", "MAJ", "GAP"}[op.N%4], op.Flag, false)
		case "replace":
			isMutation = true
			t.bag.Replace("A", "T", false)
		case "mutate":
			isMutation = true
			if !isAl || n == 0 {
				applied = false
				break
			}
			rand.Seed(op.Seed)
			al.Mutate(0.5)
		case "write-through-seq-clone":
			isMutation = true
			if t.seq == nil {
				applied = false
				break
			}
			ch := t.seq.SequenceChar()
			if len(ch) == 0 {
				applied = false
				break
			}
			ch[op.J%len(ch)] = '#'
		default:
			panic("op " + op.Kind)
		}
		if !applied {
			o.Add("steps_not_applicable", 1)
			continue
		}
		trail = append(trail, desc)
		kinds = append(kinds, op.Kind)
		o.Add("steps_applied", 1)
		switch {
		case isQuery:
			o.Add("queries", 1)
		case isMutation:
			o.Add("mutations", 1)
			if copies > 0 {
				mutatedAfterCopy++
			}
		default:
			o.Add("copies", 1)
			copies++
		}
		// every object against its snapshot
		for k, p := range pool {
			now := snapObj(p)
			if now == p.snap {
				continue
			}
			switch {
			case !isMutation:
				what := "the query"
				if produced != nil {
					what = "the copy-producing operation"
				}
				fail("input-modified", "%s changed object #%d (%s):\nbefore:\n%s\nafter:\n%s", what, k, p.what, p.snap, now)
				return
			case k == ti:
				p.snap = now // the target may change
			case p.owns || t.owns:
				fail("copy-not-independent", "mutating #%d (%s) changed #%d (%s), and one of the two owns its data:\nbefore:\n%s\nafter:\n%s", ti, t.what, k, p.what, p.snap, now)
				return
			default:
				p.snap = now // nothing is promised between these two
			}
		}
		if produced != nil {
			produced.snap = snapObj(produced)
			pool = append(pool, produced)
			// a fresh copy holds what its source holds
			if produced.bag != nil && (op.Kind == "clone" || op.Kind == "clone-seqbag") {
				if snapshotAlign(produced.bag) != snapshotAlign(t.bag) {
					fail("copy-differs", "the clone differs from its source:\nsource:\n%s\nclone:\n%s", snapshotAlign(t.bag), snapshotAlign(produced.bag))
					return
				}
			}
		}
	}
	o.Nontrivial = copies > 0 && mutatedAfterCopy > 0
	o.Sig = hash64(strings.Join(kinds, ","))
	if o.Nontrivial {
		o.Sample = map[string]interface{}{"rows": len(c.Aln.Names), "cols": len(c.Aln.Seqs[0]), "alphabet": c.Aln.Alphabet, "history": trail, "pool": len(pool)}
	}
	return
}

func (c19) Shrink(ci interface{}) []interface{} {
	c := ci.(*C19Case)
	var out []interface{}
	add := func(f func(n *C19Case) bool) {
		n := cloneCase(c19{}, c).(*C19Case)
		if f(n) {
			out = append(out, n)
		}
	}
	if len(c.Ops) > 1 {
		h := len(c.Ops) / 2
		add(func(n *C19Case) bool { n.Ops = n.Ops[h:]; return true })
		add(func(n *C19Case) bool { n.Ops = n.Ops[:h]; return true })
		for i := range c.Ops {
			i := i
			add(func(n *C19Case) bool { n.Ops = append(n.Ops[:i:i], n.Ops[i+1:]...); return true })
		}
	}
	a := c.Aln
	if len(a.Names) > 1 {
		for i := range a.Names {
			i := i
			add(func(n *C19Case) bool {
				n.Aln.Names = append(n.Aln.Names[:i:i], n.Aln.Names[i+1:]...)
				n.Aln.Seqs = append(n.Aln.Seqs[:i:i], n.Aln.Seqs[i+1:]...)
				return true
			})
		}
	}
	if l := len(a.Seqs[0]); l > 3 {
		add(func(n *C19Case) bool {
			for i := range n.Aln.Seqs {
				n.Aln.Seqs[i] = n.Aln.Seqs[i][:l/2+1]
			}
			return true
		})
	}
	return out
}
