package sim

import (
	"bytes"
	"math"
	"context"
	"fmt"
	"os"
	"os/exec"
	"path/filepath"
	"sort"
	"strings"
	"time"

	"github.com/evolbioinfo/goalign/align"
	gcmd "github.com/evolbioinfo/goalign/cmd"
	"github.com/spf13/cobra"
	"github.com/spf13/pflag"
	"github.com/evolbioinfo/goalign/verifrt"
)

// C11 — The command line is reproducible: same input, flags and seed, same
// bytes. The product promises what a simulator needs from its subject; E3
// turns it into a relational check in which everything else that can differ
// between two executions is set by the simulator to two different,
// reproducible values: Go's map-iteration order and the wall clock (seams of
// seamgen, driven by VERIF_MAPSEED / VERIF_CLOCK in the CLI binary built from
// the working tree), --threads and GOMAXPROCS, and - for the commands that
// own a worker pool, run in-process through cmd.RootCmd inside a
// testing/synctest bubble - the goroutine schedule.

type C11Case struct {
	Mode    string   `json:"mode"` // proc | pipeline-reformat | pipeline-distboot | sched
	Key     string   `json:"key"`  // template key: the stable part of a class
	Args    []string `json:"args"`
	Seeded  bool     `json:"seeded"`
	Seed    int64    `json:"seed"`
	Threads int      `json:"threads"`
	Gomax   int      `json:"gomaxprocs"`
	MapSeed [2]uint64 `json:"map_seeds"`
	Clock   [2]int64  `json:"clocks"`
	Files   map[string]string `json:"files"` // input files (name -> content)
	Stdin   string   `json:"stdin,omitempty"`
	Formats []string `json:"formats,omitempty"` // pipeline-reformat
	// sched mode
	SchedSeed [2]uint64 `json:"sched_seeds"`
	Policy    [2]int    `json:"policies"`
}

type c11 struct{}

// RaceCounts: a command that ends with an error is on its error path, where the statement promises nothing
// (phase: a worker writes the shared error variable while Phase returns it).
// RaceRelevant: the error field of an AlignChannel is written by the parser goroutine and read by commands while
// the stream is still being parsed. Whether that changes a byte of output is decided by the comparison of two
// schedules (every channel operation of the parser goroutine is a scheduling point), not by the race detector; what
// the detector is for here is the computation inside the workers, which the cooperative scheduler runs atomically.
func (c11) RaceRelevant(text string) bool {
	return !strings.Contains(text, "phylip.(*Parser).ParseMultiple") && !strings.Contains(text, "utils.ParseMultiAlignmentsAuto")
}

func (c11) RaceCounts(ci interface{}, o *Outcome) bool {
	return o.Stats["command_failed_in_process"] == 0 && o.Stats["command_exited_nonzero_in_process"] == 0
}

func init() { Register(c11{}) }

func (c11) ID() string       { return "C11" }
func (c11) New() interface{} { return &C11Case{} }
func (c11) Rule() string {
	return "each run: seeded input files (nucleotide and protein alignments with tied columns, duplicate rows and gaps, in FASTA / Phylip; unaligned sequences holding an ORF; map, name, coordinate, partition and count files) and one command line out of ~110 templates covering the documented commands (with --seed for the commands that draw). Mode proc (most runs): the CLI binary built from the working tree is executed three times in fresh directories - A and A' with (threads 1, map seed a, clock c), B with (threads 2-16, another GOMAXPROCS, map seed b, clock c + 1 h 1 s); exit status, stdout and every file written must be byte-identical; a difference is bisected to the seam that causes it. Mode pipeline-reformat: a chain of reformat commands through 2-4 formats and back must reproduce the first file; pipeline-distboot: build seqboot + compute distance per replicate must equal build distboot with the same seed. Mode sched: compute distance, build distboot, phase and phasent run in-process through cmd.RootCmd inside a synctest bubble under two seeded goroutine schedules and thread counts and their outputs are compared; the same mode runs as a batch of its own under the race detector. 5 % of the proc runs replace the input by one goalign refuses (stale TAXA block, short FASTA row, cut Phylip row). Distinct = distinct (template, input shape, configuration pair); non-trivial = the two configurations differ in map seed, clock and thread count and the command succeeded."
}

// ---------------------------------------------------------------------
// inputs
// ---------------------------------------------------------------------

func c11Alignment(r *Rand, aa bool) (names, seqs []string) {
	n := r.Range(4, 8)
	l := 4 * r.Range(3, 15)
	core := "ACGT"
	if aa {
		core = "ARNDCQEGHILKMFPSTWYV"
	}
	cols := make([][]byte, l)
	for k := range cols {
		pal := []byte{core[r.Intn(len(core))], core[r.Intn(len(core))]}
		if r.Chance(0.3) {
			pal = append(pal, core[r.Intn(len(core))])
		}
		if r.Chance(0.15) {
			pal = append(pal, '-')
		}
		if r.Chance(0.1) {
			if aa {
				pal = append(pal, 'X')
			} else {
				pal = append(pal, 'N')
			}
		}
		col := make([]byte, n)
		for i := range col {
			col[i] = pal[r.Intn(len(pal))]
		}
		cols[k] = col
	}
	for i := 0; i < n; i++ {
		s := make([]byte, l)
		for k := range s {
			s[k] = cols[k][i]
		}
		names = append(names, fmt.Sprintf("Seq%04d", i))
		seqs = append(seqs, string(s))
	}
	if aa {
		s := []byte(seqs[0])
		s[0] = 'E'
		seqs[0] = string(s)
	}
	// a duplicate row (dedup, compress) and a column of ties
	if n >= 5 {
		seqs[n-1] = seqs[1]
	}
	return
}

func fastaOf(names, seqs []string) string {
	var sb strings.Builder
	for i := range names {
		sb.WriteString(">" + names[i] + "\n" + seqs[i] + "\n")
	}
	return sb.String()
}

func phylipOf(names, seqs []string) string {
	var sb strings.Builder
	fmt.Fprintf(&sb, "   %d   %d\n", len(names), len(seqs[0]))
	for i := range names {
		sb.WriteString(names[i] + "  " + seqs[i] + "\n")
	}
	return sb.String()
}

type c11Tmpl struct {
	key    string
	args   string // space separated; {in} = input flags for the nucleotide alignment
	in     string // nt | aa | orf | two | none
	seeded bool
	noThr  bool // keep --threads 1 in both configurations (result order is schedule-dependent by design of the check: see sched mode)
}

var c11Templates = []c11Tmpl{
	{key: "reformat fasta", args: "reformat fasta {in}", in: "nt"},
	{key: "reformat phylip", args: "reformat phylip {in}", in: "nt"},
	{key: "reformat phylip strict", args: "reformat phylip --output-strict {in}", in: "nt"},
	{key: "reformat phylip oneline", args: "reformat phylip --one-line --no-block {in}", in: "nt"},
	{key: "reformat nexus", args: "reformat nexus {in}", in: "aa"},
	{key: "reformat clustal", args: "reformat clustal {in}", in: "nt"},
	{key: "reformat tnt", args: "reformat tnt {in}", in: "nt"},
	{key: "reformat paml", args: "reformat paml {in}", in: "nt"},
	{key: "reformat clean-names", args: "reformat fasta --clean-names {in}", in: "nt"},
	{key: "reformat fasta to gz", args: "reformat fasta -o out.fa.gz {in}", in: "nt"},
	{key: "reformat phylip to xz", args: "reformat phylip -o out.phy.xz {in}", in: "aa"},
	{key: "compute distance to gz", args: "compute distance -m k2p -o dist.txt.gz {in}", in: "nt"},
	{key: "dedup log gz", args: "dedup -l dedup.log.gz -o out.fa.gz {in}", in: "nt"},
	{key: "stats", args: "stats {in}", in: "nt"},
	{key: "stats aa", args: "stats {in}", in: "aa"},
	{key: "stats per-sequences", args: "stats --per-sequences {in}", in: "nt"},
	{key: "stats per-sequences profile", args: "stats --per-sequences --count-profile prof.txt --ref-sequence Seq0000 {in}", in: "nt"},
	{key: "stats char", args: "stats char {in}", in: "aa"},
	{key: "stats char per-sites", args: "stats char --per-sites {in}", in: "nt"},
	{key: "stats char per-sequences", args: "stats char --per-sequences {in}", in: "nt"},
	{key: "stats alleles", args: "stats alleles {in}", in: "nt"},
	{key: "stats alphabet", args: "stats alphabet {in}", in: "aa"},
	{key: "stats gaps", args: "stats gaps {in}", in: "nt"},
	{key: "stats gaps from-start", args: "stats gaps --from-start {in}", in: "nt"},
	{key: "stats gaps from-end", args: "stats gaps --from-end {in}", in: "nt"},
	{key: "stats gaps openning", args: "stats gaps --openning {in}", in: "nt"},
	{key: "stats gaps unique", args: "stats gaps --unique {in}", in: "nt"},
	{key: "stats length", args: "stats length {in}", in: "nt"},
	{key: "stats maxchar", args: "stats maxchar {in}", in: "nt"},
	{key: "stats maxchar ignore", args: "stats maxchar --ignore-gaps --ignore-n {in}", in: "aa"},
	{key: "stats mutations", args: "stats mutations --ref-sequence Seq0000 {in}", in: "nt"},
	{key: "stats mutations unique", args: "stats mutations --unique {in}", in: "nt"},
	{key: "stats mutations list", args: "stats mutations list --ref-sequence Seq0001 {in}", in: "nt"},
	{key: "stats nalign", args: "stats nalign {in}", in: "nt"},
	{key: "stats nseq", args: "stats nseq {in}", in: "nt"},
	{key: "stats taxa", args: "stats taxa {in}", in: "nt"},
	{key: "consensus", args: "consensus {in}", in: "nt"},
	{key: "consensus ignore", args: "consensus --ignore-gaps --ignore-n {in}", in: "aa"},
	{key: "clean sites", args: "clean sites -c 0.2 {in}", in: "nt"},
	{key: "clean sites maj", args: "clean sites --char MAJ -c 0.6 {in}", in: "nt"},
	{key: "clean sites maj ends", args: "clean sites --char MAJ -c 0.5 --ends --positions pos.txt --positions-rm rmpos.txt {in}", in: "nt"},
	{key: "clean seqs", args: "clean seqs -c 0.1 {in}", in: "nt"},
	{key: "clean seqs char", args: "clean seqs --char A -c 0.3 --ignore-n {in}", in: "nt"},
	{key: "compress", args: "compress --weight-out w.txt {in}", in: "nt"},
	{key: "compute distance", args: "compute distance -m {model} {in}", in: "nt"},
	{key: "compute distance average", args: "compute distance -m k2p -a {in}", in: "nt"},
	{key: "compute distance gapmut", args: "compute distance -m pdist --gap-mut 1 {in}", in: "nt"},
	{key: "compute distance protein", args: "compute distance -m lg {in}", in: "aa"},
	{key: "compute entropy", args: "compute entropy {in}", in: "nt"},
	{key: "compute pssm", args: "compute pssm -n 1 -c 0.01 {in}", in: "nt"},
	{key: "dedup", args: "dedup -l dedup.log {in}", in: "nt"},
	{key: "dedup n-as-gap", args: "dedup --n-as-gap {in}", in: "nt"},
	{key: "diff", args: "diff {in}", in: "nt"},
	{key: "diff counts", args: "diff --counts {in}", in: "nt"},
	{key: "mask", args: "mask -s 1 -l 3 {in}", in: "nt"},
	{key: "mask maj", args: "mask -s 0 -l 6 --replace MAJ {in}", in: "nt"},
	{key: "mask unique", args: "mask --unique {in}", in: "nt"},
	{key: "mask unique maj", args: "mask --unique --replace MAJ {in}", in: "aa"},
	{key: "mask pos", args: "mask --pos 0,2,3 --ref-seq Seq0001 {in}", in: "nt"},
	{key: "replace", args: "replace -s A -n T {in}", in: "nt"},
	{key: "replace regex", args: "replace -s GA. -e -n --- {in}", in: "nt"},
	{key: "revcomp", args: "revcomp {in}", in: "nt"},
	{key: "sort", args: "sort {in}", in: "nt"},
	{key: "subseq", args: "subseq -s 2 -l 5 {in}", in: "nt"},
	{key: "subseq ref", args: "subseq -s 1 -l 4 --ref-seq Seq0000 {in}", in: "nt"},
	{key: "subset", args: "subset Seq0001 Seq0003 {in}", in: "nt"},
	{key: "subset file", args: "subset -f names.txt {in}", in: "nt"},
	{key: "subset regexp", args: "subset --regexp .*1 .*2 {in}", in: "nt"},
	{key: "subset indices", args: "subset --indices 0 2 {in}", in: "nt"},
	{key: "subsites", args: "subsites 1 4 5 {in}", in: "nt"},
	{key: "subsites informative", args: "subsites --informative {in}", in: "nt"},
	{key: "tolower", args: "tolower {in}", in: "nt"},
	{key: "toupper", args: "toupper {in}", in: "nt"},
	{key: "translate", args: "translate --phase 0 {in}", in: "nt"},
	{key: "translate 3 phases", args: "translate --phase -1 --unaligned {infa}", in: "nt"},
	{key: "transpose", args: "transpose {in}", in: "nt"},
	{key: "trim name", args: "trim name -n 5 -m map.out {in}", in: "nt"},
	{key: "trim name auto", args: "trim name -a -m map.out {in}", in: "nt"},
	{key: "trim seq", args: "trim seq -n 3 -s {in}", in: "nt"},
	{key: "unalign", args: "unalign {in}", in: "nt"},
	{key: "addid", args: "addid -n pre_ {in}", in: "nt"},
	{key: "rename map", args: "rename -m map.in {in}", in: "nt"},
	{key: "rename regexp", args: "rename --regexp Seq(\\d+) --replace New$1 -m map.out {in}", in: "nt"},
	{key: "rename clean-names", args: "rename --clean-names --map-file map.out {in}", in: "nt"},
	{key: "identical", args: "identical -c other.fa {infa}", in: "nt"},
	{key: "append", args: "append other.fa {infa}", in: "nt"},
	{key: "concat", args: "concat other.fa {infa}", in: "nt"},
	{key: "concat new names", args: "concat other2.fa other.fa {infa}", in: "nt"},
	{key: "append new names", args: "append other2.fa {infa}", in: "nt"},
	{key: "divide", args: "divide -o div {in}", in: "nt"},
	{key: "split", args: "split --partition part.txt --out-prefix sp_ {in}", in: "nt"},
	{key: "extract", args: "extract --coordinates coord.txt --translate -1 -o . {infa}", in: "nt"},
	{key: "extract gff", args: "extract --coordinates genes.gff --gff -o . {infa}", in: "nt"},
	{key: "codonalign", args: "codonalign -i aa.fa -f nt.unaligned.fa", in: "codon"},
	{key: "orf", args: "orf -i orf.fa", in: "orf"},
	{key: "orf reverse", args: "orf --reverse -i orf.fa", in: "orf"},
	{key: "sw", args: "sw -i two.fa", in: "orf"},
	{key: "phase", args: "phase --unaligned -i orf.fa -o phased.fa --aa-output phased.aa -l phase.log", in: "orf", noThr: true},
	{key: "phase reverse", args: "phase --unaligned --reverse --cut-end -i orf.fa -o phased.fa", in: "orf", noThr: true},
	{key: "phasent", args: "phasent --unaligned -i orf.fa -o phased.fa --aa-output phased.aa", in: "orf", noThr: true},
	{key: "draw biojs", args: "draw biojs -o out.html {in}", in: "nt"},
	{key: "build weightboot", args: "build weightboot -n 3 {in}", in: "nt", seeded: true},
	{key: "draw png", args: "draw png -o out.png {in}", in: "nt"},
	{key: "replace posfile", args: "replace -f replace.txt {in}", in: "nt"},
	{key: "sort unaligned", args: "sort --unaligned {infa}", in: "nt"},
	{key: "subseq step", args: "subseq -s 1 -l 4 --step 2 -o win.fa {in}", in: "nt"},
	{key: "subseq reverse", args: "subseq -s 2 -l 3 -r {in}", in: "nt"},
	{key: "subsites reverse", args: "subsites -r 1 4 {in}", in: "nt"},
	{key: "subsites ref", args: "subsites --ref-seq Seq0001 0 2 3 {in}", in: "nt"},
	{key: "subsites sitefile", args: "subsites --sitefile sites.txt {in}", in: "nt"},
	{key: "rename revert", args: "rename -m map.rev -r {in}", in: "nt"},
	{key: "rename unaligned", args: "rename -m map.in --unaligned {infa}", in: "nt"},
	{key: "dedup name", args: "dedup --name -l dedup.log {in}", in: "nt"},
	{key: "dedup unaligned", args: "dedup --unaligned {infa}", in: "nt"},
	{key: "diff counts no-gaps", args: "diff --counts --no-gaps {in}", in: "nt"},
	{key: "translate mitov", args: "translate --genetic-code mitov --phase 1 {in}", in: "nt"},
	{key: "translate unaligned", args: "translate --genetic-code mitoi --phase 2 --unaligned {infa}", in: "nt"},
	{key: "stats mutations list aa", args: "stats mutations list --aa --ref-sequence Seq0000 {in}", in: "nt"},
	{key: "stats mutations profile", args: "stats mutations --unique --count-profile prof.txt {in}", in: "nt"},
	{key: "mask unique at-most ref", args: "mask --unique --at-most 2 --ref-seq Seq0000 {in}", in: "nt"},
	{key: "mask ref no-gaps no-ref", args: "mask -s 1 -l 4 --ref-seq Seq0001 --no-gaps --no-ref {in}", in: "nt"},
	{key: "concat log", args: "concat -l concat.log other.fa {infa}", in: "nt"},
	{key: "clean sites ignore-case", args: "clean sites --char a -c 0.3 --ignore-case --reverse {in}", in: "nt"},
	{key: "reformat ignore-identical", args: "reformat phylip --ignore-identical 1 {in}", in: "nt"},
	// commands that draw random numbers: --seed is given
	{key: "random", args: "random -n 5 -l 30", in: "none", seeded: true},
	{key: "random aa", args: "random -n 4 -l 20 -a -p", in: "none", seeded: true},
	{key: "shuffle seqs", args: "shuffle seqs {in}", in: "nt", seeded: true},
	{key: "shuffle sites", args: "shuffle sites -r 0.5 --rogue 0.5 --rogue-file rogues.txt {in}", in: "nt", seeded: true},
	{key: "shuffle sites stable", args: "shuffle sites -r 0.5 --rogue 0.5 --rogue-file rogues.txt --stable-rogues {in}", in: "nt", seeded: true},
	{key: "shuffle recomb", args: "shuffle recomb -l 0.5 -n 0.25 {in}", in: "nt", seeded: true},
	{key: "shuffle rogue", args: "shuffle rogue -l 0.5 -n 0.5 --rogue-file rogues.txt {in}", in: "nt", seeded: true},
	{key: "shuffle swap", args: "shuffle swap -r 0.5 {in}", in: "nt", seeded: true},
	{key: "sample seqs", args: "sample seqs -n 3 {in}", in: "nt", seeded: true},
	{key: "sample sites", args: "sample sites -l 5 -n 2 {in}", in: "nt", seeded: true},
	{key: "sample sites scattered", args: "sample sites -l 5 --consecutive=false {in}", in: "nt", seeded: true},
	{key: "sample rarefy", args: "sample rarefy -n 4 -c counts.txt -r 2 {in}", in: "nt", seeded: true},
	{key: "mutate gaps", args: "mutate gaps -r 0.2 -n 0.5 {in}", in: "nt", seeded: true},
	{key: "mutate snvs", args: "mutate snvs -r 0.2 {in}", in: "nt", seeded: true},
	{key: "mutate snvs rate above 1", args: "mutate snvs -r 1.5 {in}", in: "nt", seeded: true},
	{key: "mutate gaps rates above 1", args: "mutate gaps -r 1.5 -n 2 {in}", in: "nt", seeded: true},
	{key: "mutate snvs rate 0", args: "mutate snvs -r 0 {in}", in: "nt", seeded: true},
	{key: "shuffle sites all", args: "shuffle sites -r 1 --rogue 1 --rogue-file rogues.txt {in}", in: "nt", seeded: true},
	{key: "shuffle recomb all", args: "shuffle recomb -l 1 -n 1 {in}", in: "nt", seeded: true},
	{key: "shuffle swap all", args: "shuffle swap -r 1 {in}", in: "nt", seeded: true},
	{key: "sample sites full length", args: "sample sites -l 1 -n 3 {in}", in: "nt", seeded: true},
	{key: "build seqboot", args: "build seqboot -n 3 -o boot {in}", in: "nt", seeded: true},
	{key: "build seqboot frac shuf", args: "build seqboot -n 2 -f 0.5 -S -o boot {in}", in: "nt", seeded: true},
	{key: "build seqboot gz", args: "build seqboot -n 2 -o boot --gz {in}", in: "nt", seeded: true},
	{key: "build seqboot tar", args: "build seqboot -n 2 -o boot --tar {in}", in: "nt", seeded: true},
	{key: "build seqboot partition", args: "build seqboot -n 2 -o boot --partition part.txt --out-partition part.out {in}", in: "nt", seeded: true},
	{key: "build seqboot missing directory", args: "build seqboot -n 2 -o nodir/boot {in}", in: "nt", seeded: true},
	{key: "build seqboot onto a directory", args: "build seqboot -n 3 -o boot {in}", in: "nt", seeded: true},
	{key: "divide missing directory", args: "divide -o nodir/div {in}", in: "nt"},
	{key: "reformat missing directory", args: "reformat phylip -o nodir/out.phy {in}", in: "nt"},
	{key: "build distboot", args: "build distboot -n 3 -m k2p -o dist.txt {in}", in: "nt", seeded: true},
	{key: "build distboot protein", args: "build distboot -n 2 -m jtt {in}", in: "aa", seeded: true},
}

var c11Models = []string{"jc", "k2p", "pdist", "rawdist", "f81", "f84", "tn93"}

func (c11) Gen(rs uint64, tier string, race bool) interface{} {
	r := NewRand(rs)
	c := &C11Case{Mode: "proc", Files: map[string]string{}}
	c.Seed = int64(r.Intn(1 << 30))
	switch r.Intn(24) {
	case 0:
		c.Seed = -int64(2 + r.Intn(100000)) // only -1 means "no seed"
	case 1:
		c.Seed = math.MinInt64
	case 2:
		c.Seed = 0
	case 3:
		c.Seed = math.MaxInt64
	}
	c.Threads = r.Pick(2, 3, 4, 8, 16)
	c.Gomax = r.Pick(1, 4, 16)
	c.MapSeed = [2]uint64{r.U64() >> 1, r.U64() >> 1}
	c.Clock[0] = 1700000000e9 + int64(r.Intn(100000000))*1e9 + int64(r.Intn(1e9))
	c.Clock[1] = c.Clock[0] + 3661e9
	c.SchedSeed = [2]uint64{r.U64(), r.U64()}
	c.Policy = [2]int{r.Pick(PolUniform, PolSticky, PolPCT, PolStarve), r.Pick(PolUniform, PolSticky, PolPCT, PolStarve)}
	nn, ns := c11Alignment(r, false)
	an, as := c11Alignment(r, true)
	phy := r.Chance(0.3)
	switch x := r.Intn(20); {
	case x == 0:
		c.Mode = "pipeline-reformat"
	case x == 1:
		c.Mode = "pipeline-distboot"
	case x <= 8:
		c.Mode = "sched"
	}
	if race {
		c.Mode = "sched" // the race detector only sees what runs in this process
	}
	// unaligned sequences with an ORF (C16's generator)
	oc := c16{}.Gen(r.U64(), tier, false).(*C16Case)
	var on []string
	on = append(on, oc.Names...)
	c.Files["orf.fa"] = fastaOf(on, oc.Seqs)
	if len(oc.Seqs) >= 2 {
		c.Files["two.fa"] = fastaOf(on[:2], oc.Seqs[:2])
	} else {
		c.Files["two.fa"] = fastaOf([]string{"a", "b"}, []string{oc.Seqs[0], oc.Orf})
	}
	c.Files["nt.fa"] = fastaOf(nn, ns)
	c.Files["nt.phy"] = phylipOf(nn, ns)
	c.Files["aa.fa"] = fastaOf(an, as)
	c.Files["aa.phy"] = phylipOf(an, as)
	on2, os2 := c11Alignment(r, false)
	for i := range os2 {
		os2[i] = fit(os2[i], len(ns[0]))
	}
	c.Files["other.fa"] = fastaOf(on2, os2)
	{
		// the same rows, half of them under names the first alignment does not hold
		on3 := append([]string{}, on2...)
		for i := range on3 {
			if i%2 == 0 {
				on3[i] = fmt.Sprintf("Extra%02d", (i*7+3)%len(on3))
			}
		}
		c.Files["other2.fa"] = fastaOf(on3, os2)
	}
	c.Files["names.txt"] = nn[1] + "\n" + nn[2] + "\n"
	c.Files["map.in"] = nn[0] + "\tRenamedA\n" + nn[2] + "\tRenamedB\n"
	c.Files["map.rev"] = "RenamedA\t" + nn[0] + "\nRenamedB\t" + nn[2] + "\n"
	if r.Chance(0.5) {
		// a name given several times (the last line wins), several names sent to one
		c.Files["map.in"] += nn[0] + "\tRenamedC\n" + nn[1] + "\tRenamedB\n" + nn[0] + "\tRenamedD\n"
		c.Files["map.rev"] += "RenamedC\t" + nn[0] + "\nRenamedD\t" + nn[0] + "\nRenamedE\t" + nn[2] + "\nRenamedF\t" + nn[0] + "\n"
	}
	c.Files["sites.txt"] = "0\n2\n3\n"
	c.Files["replace.txt"] = "# name site char\n" + nn[0] + "\t1\tN\n" + nn[1] + "\t0\t-\n"
	l := len(ns[0])
	c.Files["part.txt"] = fmt.Sprintf("M1,p1=1-%d\nM2,p2=%d-%d\n", l/2, l/2+1, l)
	{
		// a GFF file: genes of 3-6 nt with one or two CDS each, two genes sharing a Name, one without a Name
		var gff strings.Builder
		names := []string{"geneA", "geneB", "geneA", "", "geneC", ""}
		for g := 0; g < len(names) && 6*g+6 <= l; g++ {
			st, en := 6*g+1, 6*g+6
			attr := fmt.Sprintf("ID=g%d", g)
			if names[g] != "" {
				attr += ";Name=" + names[g]
			}
			fmt.Fprintf(&gff, "chr\tsim\tgene\t%d\t%d\t.\t%s\t.\t%s\n", st, en, "+-"[g%2:g%2+1], attr)
			fmt.Fprintf(&gff, "chr\tsim\tCDS\t%d\t%d\t.\t%s\t0\tID=c%da;Parent=g%d\n", st, st+2, "+-"[g%2:g%2+1], g, g)
			if g%3 != 1 {
				fmt.Fprintf(&gff, "chr\tsim\tCDS\t%d\t%d\t.\t%s\t0\tID=c%db;Parent=g%d\n", st+3, en, "+-"[g%2:g%2+1], g, g)
			}
		}
		c.Files["genes.gff"] = gff.String()
	}
	c.Files["coord.txt"] = fmt.Sprintf("0,7\t3,%d\tg1\n2\t8\tg2\t-\n1\t4\tg3\t+\n", l-1)
	var cnt strings.Builder
	for i, nm := range nn {
		fmt.Fprintf(&cnt, "%s\t%d\n", nm, 1+i%3)
	}
	c.Files["counts.txt"] = cnt.String()
	// profile for stats --count-profile: written by goalign itself in the tests; a simple one here
	{
		var pf strings.Builder
		pf.WriteString("site\t-\tT\tC\tG\tA\n")
		for k := 0; k < l; k++ {
			fmt.Fprintf(&pf, "%d\t%d\t%d\t%d\t%d\t%d\n", k, r.Intn(3), r.Intn(10), r.Intn(10), r.Intn(10), r.Intn(10))
		}
		c.Files["prof.txt"] = pf.String()
	}
	// codonalign: an aa alignment and the matching unaligned nt sequences
	{
		var cn, caa, cnt2 []string
		for i := 0; i < 3; i++ {
			var nt, aa strings.Builder
			for k := 0; k < 6; k++ {
				if r.Chance(0.2) {
					aa.WriteByte('-')
					continue
				}
				cod := c16Codons[r.Intn(len(c16Codons))]
				nt.WriteString(cod)
				a, _ := align.NewSequence("x", []uint8(cod), "").Translate(0, 0)
				aa.WriteString(a.Sequence())
			}
			cn = append(cn, fmt.Sprintf("c%d", i))
			caa = append(caa, aa.String())
			cnt2 = append(cnt2, nt.String())
		}
		c.Files["nt.unaligned.fa"] = fastaOf(cn, cnt2)
		if c.Mode == "proc" {
			// only used by the codonalign template
			c.Files["codon.aa.fa"] = fastaOf(cn, caa)
		}
	}
	switch c.Mode {
	case "pipeline-reformat":
		fs := []string{"fasta", "phylip", "nexus", "clustal", "phylip-strict", "phylip-oneline", "phylip-strict-oneline"}
		c.Formats = []string{fs[r.Intn(len(fs))]}
		for k := r.Range(1, 3); k > 0; k-- {
			c.Formats = append(c.Formats, fs[r.Intn(len(fs))])
		}
		if r.Chance(0.4) {
			// files of several buffers (4096 bytes) in every format
			rows, cols := r.Range(12, 160), r.Range(70, 300) // the names of the first block reach beyond one or two buffers
			if r.Bool() {
				c.Formats[len(c.Formats)-1] = r.PickS("phylip-strict", "phylip-strict-oneline", "phylip-strict-oneline") // read back by the step that follows (the last one returns to the first format)
			}
			var bn, bs []string
			for i := 0; i < rows; i++ {
				b := make([]byte, cols)
				for k := range b {
					b[k] = "ACGTACGTACGT-N"[r.Intn(14)]
				}
				bn = append(bn, fmt.Sprintf("Seq%04d", i))
				bs = append(bs, string(b))
			}
			c.Files["nt.fa"] = fastaOf(bn, bs)
		}
		c.Formats = append(c.Formats, c.Formats[0])
		c.Key = "pipeline reformat"
		return c
	case "pipeline-distboot":
		c.Key = "pipeline seqboot+distance = distboot"
		c.Args = []string{c11Models[r.Intn(len(c11Models))], fmt.Sprint(r.Range(1, 3))}
		return c
	case "sched":
		k := r.Intn(12)
		if k >= 4 {
			k = 4 + k%4
			// a stream of several Phylip alignments, the last one possibly malformed: the parser
			// goroutine runs ahead of the command's consumer loop by a schedule-dependent distance
			na := r.Range(2, 8)
			if r.Chance(0.3) {
				na = r.Range(16, 22) // more than the 15 slots of the channel
			}
			var ms strings.Builder
			for i := 0; i < na; i++ {
				mn, mq := c11Alignment(r, false)
				for j := range mq {
					mq[j] = mq[j][:8]
				}
				ms.WriteString(phylipOf(mn[:3], mq[:3]))
			}
			switch r.Intn(4) {
			case 0, 3:
				ms.WriteString("   3   8\nSeq0000  ACGTACGT\nSeq0001  ACG\n") // truncated last alignment
			case 1:
				ms.WriteString("   2   8\nSeq0000  ACGTACGT\nSeq0001  ACGTACGTAA\n") // wrong length
			}
			c.Files["multi.phy"] = ms.String()
			c.Seeded = true
			switch k {
			case 4:
				c.Key = "sched consensus stream"
				c.Args = strings.Fields("consensus --ignore-gaps=false --ignore-n=false --exclude-gaps=false -i {dir}/multi.phy --phylip=true -o {dir}/out.txt")
			case 5:
				c.Key = "sched stats char stream"
				c.Args = strings.Fields("stats char --only * --per-sites=false --per-sequences=false -i {dir}/multi.phy --phylip=true")
			case 6:
				c.Key = "sched reformat stream"
				c.Args = strings.Fields("reformat fasta --clean-names=false -i {dir}/multi.phy --phylip=true -o {dir}/out.txt")
			default:
				c.Key = "sched subseq stream"
				c.Args = strings.Fields("subseq -s 1 -l 3 --ref-seq none --reverse=false --step 0 -i {dir}/multi.phy --phylip=true -o {dir}/out.txt")
			}
			if r.Chance(0.7) {
				// any of the commands that take the nucleotide alignment (every flag is reset to its default before each
				// in-process execution, so only the flags of the template matter)
				var cands []c11Tmpl
				for _, t := range c11Templates {
					if t.in == "nt" && !t.seeded && strings.Contains(t.args, "{in}") {
						cands = append(cands, t)
					}
				}
				t := cands[r.Intn(len(cands))]
				c.Key = "sched stream " + t.key
				a := strings.ReplaceAll(t.args, "{in}", "-i multi.phy -p")
				a = strings.ReplaceAll(a, "{model}", c11Models[r.Intn(len(c11Models))])
				c.Args = strings.Fields(a)
			}
			return c
		}
		switch k {
		case 0:
			c.Key = "sched compute distance"
			c.Args = strings.Fields("compute distance -m " + c11Models[r.Intn(len(c11Models))] + " -i {dir}/nt.fa --phylip=false -o {dir}/out.txt --average=false --rm-gaps=false --gap-mut 0 --rm-ambiguous=false")
		case 1:
			c.Key = "sched build distboot"
			c.Args = strings.Fields("build distboot -n 2 -m " + c11Models[r.Intn(len(c11Models))] + " -f 1 --rm-gaps=false -i {dir}/nt.fa --phylip=false -o {dir}/out.txt")
		case 2:
			c.Key = "sched phase"
			c.Args = strings.Fields("phase --unaligned=true --reverse=" + fmt.Sprint(r.Bool()) + " --cut-end=" + fmt.Sprint(r.Bool()) + " --ref-orf none --genetic-code standard --len-cutoff -1 --match-cutoff 0.5 -l none -i {dir}/orf.fa --phylip=false -o {dir}/out.txt --aa-output {dir}/out.aa")
		default:
			c.Key = "sched phasent"
			c.Args = strings.Fields("phasent --unaligned=true --reverse=" + fmt.Sprint(r.Bool()) + " --cut-end=" + fmt.Sprint(r.Bool()) + " --ref-orf none --genetic-code standard --len-cutoff -1 --match-cutoff 0.5 -l none -i {dir}/orf.fa --phylip=false -o {dir}/out.txt --aa-output {dir}/out.aa")
		}
		c.Seeded = true
		return c
	}
	t := c11Templates[r.Intn(len(c11Templates))]
	if r.Chance(0.012) {
		// more than a thousand sequences (a size at which an implementation may switch to another code path), the
		// one residue that decides the alphabet in a single row; as one alignment and as a stream of two
		rows := r.Pick(1001, 1024, 1200, 1500)
		var bn, bs []string
		odd := r.Intn(rows)
		for i := 0; i < rows; i++ {
			b := make([]byte, 8)
			for k := range b {
				b[k] = "ACGT"[r.Intn(4)]
			}
			if i == odd {
				b[r.Intn(8)] = 'E'
			}
			bn = append(bn, fmt.Sprintf("Seq%04d", i))
			bs = append(bs, string(b))
		}
		c.Files["nt.fa"] = fastaOf(bn, bs)
		c.Files["nt.phy"] = phylipOf(bn, bs) + phylipOf(bn, bs)
		c.Files["other.fa"], c.Files["other2.fa"] = c.Files["nt.fa"], c.Files["nt.fa"]
		quick := []string{"reformat nexus", "reformat fasta", "reformat phylip", "stats", "stats alphabet", "shuffle seqs", "sample seqs", "shuffle sites", "mutate snvs", "sort", "dedup", "stats char", "consensus", "subset", "sample sites", "shuffle swap"}
		for {
			t = c11Templates[r.Intn(len(c11Templates))]
			ok := false
			for _, q := range quick {
				ok = ok || t.key == q
			}
			if ok {
				break
			}
		}
		if t.in == "aa" {
			t.in = "nt"
		}
	}
	if t.key == "build seqboot onto a directory" {
		c.Files["boot1.fa/keep"] = "the name of the second replicate is taken by a directory\n"
	}
	c.Key = t.key
	c.Seeded = t.seeded
	in := "-i nt.fa"
	if t.in == "aa" {
		in = "-i aa.fa"
	}
	if phy {
		in = strings.Replace(in, ".fa", ".phy", 1) + " -p"
	}
	a := strings.ReplaceAll(t.args, "{in}", in)
	a = strings.ReplaceAll(a, "{infa}", "-i nt.fa")
	a = strings.ReplaceAll(a, "{model}", c11Models[r.Intn(len(c11Models))])
	if t.in == "codon" {
		a = "codonalign -i codon.aa.fa -f nt.unaligned.fa"
	}
	c.Args = strings.Fields(a)
	if !phy && t.in == "nt" && strings.Contains(t.args, "{in}") && r.Chance(0.15) {
		// the same input through a pipe instead of a file (-i defaults to stdin)
		var na []string
		for k := 0; k < len(c.Args); k++ {
			if c.Args[k] == "-i" && k+1 < len(c.Args) && c.Args[k+1] == "nt.fa" {
				k++
				continue
			}
			na = append(na, c.Args[k])
		}
		c.Args = na
		c.Stdin = c.Files["nt.fa"]
	}
	if t.noThr {
		c.Threads = 1
	}
	if c.Stdin == "" && t.in == "nt" && strings.Contains(t.args, "{in}") && r.Chance(0.05) {
		// "the same input" also when goalign refuses it: what the command prints and its exit status are compared all
		// the same. A Nexus file whose TAXA block lists taxa the matrix does not hold, a FASTA file with a short row,
		// a Phylip file cut in its last row.
		var bad, flag string
		switch r.Intn(3) {
		case 0:
			var nx strings.Builder
			fmt.Fprintf(&nx, "#NEXUS\nBEGIN TAXA;\n DIMENSIONS NTAX=%d;\n TAXLABELS", len(nn)+3)
			for _, k := range r.Perm(len(nn) + 3) {
				if k < len(nn) {
					nx.WriteString(" " + nn[k])
				} else {
					fmt.Fprintf(&nx, " absent%d", k)
				}
			}
			fmt.Fprintf(&nx, ";\nEND;\nBEGIN CHARACTERS;\n DIMENSIONS NCHAR=%d;\n FORMAT DATATYPE=dna GAP=- MISSING=*;\n MATRIX\n", len(ns[0]))
			for i := range nn {
				fmt.Fprintf(&nx, "%s %s\n", nn[i], ns[i])
			}
			nx.WriteString(";\nEND;\n")
			bad, flag = nx.String(), "-x"
		case 1:
			short := append([]string{}, ns...)
			short[len(short)-1] = short[len(short)-1][:len(short[0])/2]
			bad, flag = fastaOf(nn, short), ""
		default:
			ph := phylipOf(nn, ns)
			bad, flag = ph[:len(ph)-len(ns[0])/2-1], "-p"
		}
		c.Files["refused.in"] = bad
		var na []string
		for k := 0; k < len(c.Args); k++ {
			if c.Args[k] == "-p" {
				continue
			}
			if c.Args[k] == "-i" && k+1 < len(c.Args) {
				na = append(na, "-i", "refused.in")
				if flag != "" {
					na = append(na, flag)
				}
				k++
				continue
			}
			na = append(na, c.Args[k])
		}
		c.Args = na
		c.Key += " (input refused)"
	}
	return c
}

// ---------------------------------------------------------------------
// executing the CLI
// ---------------------------------------------------------------------

type cliResult struct {
	exit   int
	stdout []byte
	files  map[string][]byte
	err    string
	stderr string
}

func (a *cliResult) diff(b *cliResult) string {
	if a.err != "" || b.err != "" {
		if a.err != b.err {
			return fmt.Sprintf("execution problem: %q vs %q", a.err, b.err)
		}
	}
	if a.exit != b.exit {
		return fmt.Sprintf("exit status %d vs %d", a.exit, b.exit)
	}
	if !bytes.Equal(a.stdout, b.stdout) {
		return "stdout differs: " + firstDiff(a.stdout, b.stdout)
	}
	var names []string
	for n := range a.files {
		names = append(names, n)
	}
	for n := range b.files {
		if _, ok := a.files[n]; !ok {
			names = append(names, n)
		}
	}
	sort.Strings(names)
	for _, n := range names {
		x, ok1 := a.files[n]
		y, ok2 := b.files[n]
		if ok1 != ok2 {
			return fmt.Sprintf("file %s written by one execution only", n)
		}
		if !bytes.Equal(x, y) {
			return fmt.Sprintf("file %s differs: %s", n, firstDiff(x, y))
		}
	}
	return ""
}

func firstDiff(a, b []byte) string {
	k := 0
	for k < len(a) && k < len(b) && a[k] == b[k] {
		k++
	}
	lo := max(0, k-30)
	return fmt.Sprintf("first difference at byte %d of %d/%d: %q vs %q", k, len(a), len(b), clip(string(a[lo:]), 90), clip(string(b[lo:]), 90))
}

type cliCfg struct {
	threads, gomax int
	mapseed        uint64
	clock          int64
}

var c11RunSeq int

func (c *C11Case) runCLI(cfg cliCfg, args []string, extra map[string][]byte, left ...map[string][]byte) *cliResult {
	cli := jobExtra["cli"]
	if cli == "" {
		panic("harness: no CLI binary given to the worker")
	}
	c11RunSeq++
	dir, err := os.MkdirTemp(".", fmt.Sprintf("c11-%d-", c11RunSeq))
	if err != nil {
		panic("harness: " + err.Error())
	}
	defer os.RemoveAll(dir)
	inputs := map[string]bool{}
	for n, s := range c.Files {
		if strings.Contains(n, "/") {
			os.MkdirAll(filepath.Dir(filepath.Join(dir, n)), 0755)
		}
		os.WriteFile(filepath.Join(dir, n), []byte(s), 0644)
		inputs[n] = true
	}
	for n, s := range extra {
		os.WriteFile(filepath.Join(dir, n), s, 0644)
		inputs[n] = true
	}
	// what an earlier execution of the same command line wrote (a re-run in the same directory): not inputs, the
	// files found after the run are compared like any output
	for _, m := range left {
		for n, s := range m {
			if !inputs[n] && !strings.HasPrefix(n, "(input modified)") {
				os.MkdirAll(filepath.Dir(filepath.Join(dir, n)), 0755)
				os.WriteFile(filepath.Join(dir, n), s, 0644)
			}
		}
	}
	full := append([]string{}, args...)
	full = append(full, "-t", fmt.Sprint(cfg.threads))
	if c.Seeded {
		full = append(full, "--seed", fmt.Sprint(c.Seed))
	}
	ctx, cancel := context.WithTimeout(context.Background(), 120*time.Second)
	defer cancel()
	cmd := exec.CommandContext(ctx, cli, full...)
	cmd.Dir = dir
	cmd.Env = []string{"PATH=/usr/bin:/bin", "HOME=/tmp", fmt.Sprintf("VERIF_MAPSEED=%d", cfg.mapseed), fmt.Sprintf("VERIF_CLOCK=%d", cfg.clock), fmt.Sprintf("GOMAXPROCS=%d", cfg.gomax)}
	cmd.Stdin = strings.NewReader(c.Stdin)
	var so, se bytes.Buffer
	cmd.Stdout, cmd.Stderr = &so, &se
	res := &cliResult{files: map[string][]byte{}}
	if err := cmd.Run(); err != nil {
		if ee, ok := err.(*exec.ExitError); ok {
			res.exit = ee.ExitCode()
		} else {
			res.err = err.Error()
		}
		if ctx.Err() != nil {
			res.err = "timeout after 120 s"
		}
	}
	res.stdout = so.Bytes()
	res.stderr = se.String()
	filepath.Walk(dir, func(p string, info os.FileInfo, err error) error {
		if err != nil || info.IsDir() {
			return nil
		}
		rel, _ := filepath.Rel(dir, p)
		if inputs[rel] {
			if b, e := os.ReadFile(p); e == nil && string(b) != c.Files[rel] && extra[rel] == nil {
				res.files["(input modified) "+rel] = b
			}
			return nil
		}
		b, _ := os.ReadFile(p)
		res.files[rel] = b
		return nil
	})
	return res
}

func (c *C11Case) describe() string {
	var fs []string
	for n := range c.Files {
		fs = append(fs, n)
	}
	sort.Strings(fs)
	s := fmt.Sprintf("mode=%s key=%q args=%v seeded=%v seed=%d threads=1 vs %d gomaxprocs=%d map seeds=%v clocks=%v\n", c.Mode, c.Key, c.Args, c.Seeded, c.Seed, c.Threads, c.Gomax, c.MapSeed, c.Clock)
	for _, n := range []string{"nt.fa", "orf.fa"} {
		s += n + ":\n" + clip(c.Files[n], 700) + "\n"
	}
	return s
}

func (c11) Run(ctx *Ctx, ci interface{}) (o Outcome) {
	c := ci.(*C11Case)
	o.Add("mode_"+c.Mode, 1)
	fail := func(class, format string, a ...interface{}) {
		o.Fail(class+":"+c.Key, format+"\n%s", append(a, c.describe())...)
	}
	cfgA := cliCfg{threads: 1, gomax: 4, mapseed: c.MapSeed[0], clock: c.Clock[0]}
	cfgB := cliCfg{threads: c.Threads, gomax: c.Gomax, mapseed: c.MapSeed[1], clock: c.Clock[1]}
	o.Sig = hash64(c.Mode, c.Key, strings.Join(c.Args, " "), len(c.Files["nt.fa"]), c.Threads, c.Gomax)
	switch c.Mode {
	case "proc":
		a := c.runCLI(cfgA, c.Args, nil)
		if a.err != "" {
			fail("cli-hang-or-spawn-error", "%s\nstderr: %s", a.err, clip(a.stderr, 800))
			return
		}
		a2 := c.runCLI(cfgA, c.Args, nil)
		var b *cliResult
		if c.Seed%3 == 0 && len(a.files) > 0 {
			// the other configuration runs where the first execution left its files
			b = c.runCLI(cfgB, c.Args, nil, a.files)
			o.Add("executions_over_the_files_of_an_earlier_one", 1)
		} else {
			b = c.runCLI(cfgB, c.Args, nil)
		}
		o.Add("cli_executions", 3)
		if a.exit != 0 {
			o.Add("command_failed_exit_nonzero", 1)
			o.Add("failed_"+c.Key, 1)
		} else {
			o.Add("command_succeeded", 1)
			o.Nontrivial = true
		}
		if d := a.diff(a2); d != "" {
			fail("unrepeatable", "two executions with the same flags, seed, threads, map order and clock differ: %s", d)
			return
		}
		if d := a.diff(b); d != "" {
			// bisect to the seam
			culprit := "combination"
			for _, v := range []struct {
				name string
				cfg  cliCfg
			}{
				{"map-order", cliCfg{1, 4, c.MapSeed[1], c.Clock[0]}},
				{"clock", cliCfg{1, 4, c.MapSeed[0], c.Clock[1]}},
				{"threads", cliCfg{c.Threads, c.Gomax, c.MapSeed[0], c.Clock[0]}},
			} {
				x := c.runCLI(v.cfg, c.Args, nil)
				if a.diff(x) != "" {
					culprit = v.name
					break
				}
			}
			fail("depends-on-"+culprit, "same input, flags and seed, different bytes when only %s changes between two executions: %s", culprit, d)
			return
		}
		o.Sample = map[string]interface{}{"mode": "proc", "args": c.Args, "exit": a.exit, "stdout_bytes": len(a.stdout), "files_written": len(a.files), "threads": []int{1, c.Threads}}
	case "pipeline-reformat":
		// write the first format, then walk the chain; the last file must equal the first
		flag := map[string]string{"fasta": "", "phylip": "-p", "nexus": "-x", "clustal": "-u", "phylip-strict": "-p --input-strict", "phylip-oneline": "-p", "phylip-strict-oneline": "-p --input-strict"}
		wr := func(f string) string {
			switch f {
			case "phylip-strict":
				return "phylip --output-strict"
			case "phylip-oneline":
				return "phylip --one-line"
			case "phylip-strict-oneline":
				return "phylip --output-strict --one-line"
			}
			return f
		}
		first := c.runCLI(cfgA, strings.Fields("reformat "+wr(c.Formats[0])+" -i nt.fa -o step0"), nil)
		if first.exit != 0 || first.files["step0"] == nil {
			fail("pipeline-step-failed", "reformat %s failed (exit %d): %s", c.Formats[0], first.exit, clip(first.stderr, 500))
			return
		}
		cur := first.files["step0"]
		for k := 1; k < len(c.Formats); k++ {
			cfg := cfgA
			if k%2 == 1 {
				cfg = cfgB
			}
			args := strings.Fields(fmt.Sprintf("reformat %s -i cur %s -o next", wr(c.Formats[k]), flag[c.Formats[k-1]]))
			res := c.runCLI(cfg, args, map[string][]byte{"cur": cur})
			o.Add("cli_executions", 1)
			if res.exit != 0 || res.files["next"] == nil {
				fail("pipeline-step-failed", "step %d (reformat %s from %s) failed (exit %d): %s", k, c.Formats[k], c.Formats[k-1], res.exit, clip(res.stderr, 500))
				return
			}
			cur = res.files["next"]
		}
		if !bytes.Equal(cur, first.files["step0"]) {
			fail("pipeline-reformat-differs", "reformatting through %v does not return the bytes of the first file: %s", c.Formats, firstDiff(first.files["step0"], cur))
			return
		}
		o.Nontrivial = true
		o.Sample = map[string]interface{}{"mode": c.Mode, "formats": c.Formats, "bytes": len(cur)}
	case "pipeline-distboot":
		model, nb := c.Args[0], c.Args[1]
		c.Seeded = true
		boot := c.runCLI(cfgA, strings.Fields("build seqboot -n "+nb+" -o boot -i nt.fa"), nil)
		direct := c.runCLI(cfgB, strings.Fields("build distboot -n "+nb+" -m "+model+" -i nt.fa"), nil)
		if boot.exit != 0 || direct.exit != 0 {
			fail("pipeline-step-failed", "seqboot exit %d, distboot exit %d: %s %s", boot.exit, direct.exit, clip(boot.stderr, 300), clip(direct.stderr, 300))
			return
		}
		var all []byte
		c.Seeded = false
		n := 0
		fmt.Sscan(nb, &n)
		for k := 0; k < n; k++ {
			f := boot.files[fmt.Sprintf("boot%d.fa", k)]
			if f == nil {
				fail("pipeline-step-failed", "seqboot did not write boot%d.fa (files: %d)", k, len(boot.files))
				return
			}
			d := c.runCLI(cfgA, strings.Fields("compute distance -m "+model+" -i b.fa"), map[string][]byte{"b.fa": f})
			if d.exit != 0 {
				fail("pipeline-step-failed", "compute distance on replicate %d: exit %d %s", k, d.exit, clip(d.stderr, 300))
				return
			}
			all = append(all, d.stdout...)
		}
		o.Add("cli_executions", int64(2+n))
		if !bytes.Equal(all, direct.stdout) {
			fail("pipeline-distboot-differs", "the distance matrices of the seeded bootstrap alignments differ from build distboot with the same seed: %s", firstDiff(all, direct.stdout))
			return
		}
		o.Nontrivial = true
		o.Sample = map[string]interface{}{"mode": c.Mode, "model": model, "replicates": n, "bytes": len(all)}
	case "sched":
		c.runSched(ctx, &o, fail)
	}
	return
}

// runSched executes a pool-owning command in-process under two seeded
// goroutine schedules and thread counts.
func (c *C11Case) runSched(ctx *Ctx, o *Outcome, fail func(string, string, ...interface{})) {
	type outc struct {
		files map[string][]byte
		sr    SchedResult
		err   error
	}
	run := func(k int, threads int) outc {
		c11RunSeq++
		dir, err := os.MkdirTemp(".", fmt.Sprintf("c11s-%d-", c11RunSeq))
		if err != nil {
			panic("harness: " + err.Error())
		}
		defer os.RemoveAll(dir)
		abs, _ := filepath.Abs(dir)
		for n, s := range c.Files {
			os.WriteFile(filepath.Join(dir, n), []byte(s), 0644)
		}
		var args []string
		for _, a := range c.Args {
			args = append(args, strings.ReplaceAll(a, "{dir}", abs))
		}
		args = append(args, "-t", fmt.Sprint(threads), "--seed", fmt.Sprint(c.Seed))
		verifrt.SetMapSeed(c.MapSeed[k], true)
		verifrt.SetClock(c.Clock[k], true)
		defer verifrt.SetMapSeed(0, false)
		defer verifrt.SetClock(0, false)
		var res outc
		// the command runs inside the run's directory (relative output names), with every flag back to its default
		if wd, err := os.Getwd(); err == nil {
			os.Chdir(abs)
			defer os.Chdir(wd)
		}
		resetCobraFlags(gcmd.RootCmd)
		// what the command prints goes to a file of the run's directory
		oldStdout := os.Stdout
		if sf, err := os.Create(filepath.Join(abs, "stdout.txt")); err == nil {
			os.Stdout = sf
			defer func() { os.Stdout = oldStdout; sf.Close() }()
		}
		res.sr = RunSched(ctx.T, SchedCfg{Seed: c.SchedSeed[k], Policy: c.Policy[k], MaxSteps: 400000}, func() {
			gcmd.RootCmd.SetArgs(args)
			res.err = gcmd.RootCmd.Execute()
		})
		res.files = map[string][]byte{}
		filepath.Walk(abs, func(p string, info os.FileInfo, err error) error {
			if err != nil || info.IsDir() {
				return nil
			}
			rel, _ := filepath.Rel(abs, p)
			if _, isInput := c.Files[rel]; isInput {
				return nil
			}
			if b, e := os.ReadFile(p); e == nil {
				res.files[rel] = b
			}
			return nil
		})
		return res
	}
	a := run(0, 1)
	b := run(1, c.Threads)
	o.Add("sched_steps", int64(a.sr.Steps+b.sr.Steps))
	exits := [2]int{-1, -1}
	for xi, x := range []outc{a, b} {
		for _, p := range x.sr.Panics {
			if p.Exit >= 0 {
				o.Add("command_exited_nonzero_in_process", 1)
				exits[xi] = p.Exit
				continue
			}
			fs := goalignFuncs(p.Stack)
			top := "?"
			if len(fs) > 0 {
				top = fs[0]
			}
			fail("panic:"+top, "goroutine g%d panicked: %s\n%s", p.Gid, p.Panic, p.Stack)
			return
		}
		if x.sr.Deadlock {
			fail("hang:"+x.sr.BlockedFuncs(), "the command never finished: every goroutine is blocked after %d steps\n%s", x.sr.Steps, x.sr.Stacks)
			return
		}
		if x.sr.Budget {
			fail("livelock", "not finished within %d scheduler steps", x.sr.Steps)
			return
		}
	}
	errClass := "depends-on-schedule"
	if exits[0] != exits[1] {
		fail(errClass, "the command exits with status %d under one schedule and %d under another (-1 = no exit)", exits[0], exits[1])
		return
	}
	if (a.err == nil) != (b.err == nil) {
		fail(errClass, "the command returns %v under one schedule and %v under another", a.err, b.err)
		return
	}
	if a.err != nil {
		o.Add("command_failed_in_process", 1)
	}
	o.Nontrivial = true
	o.Sig = hash64(o.Sig, a.sr.Hash, b.sr.Hash)
	var fnames []string
	for n := range a.files {
		fnames = append(fnames, n)
	}
	for n := range b.files {
		if _, ok := a.files[n]; !ok {
			fnames = append(fnames, n)
		}
	}
	sort.Strings(fnames)
	for _, n := range fnames {
		if !bytes.Equal(a.files[n], b.files[n]) {
			fail("depends-on-schedule", "file %s differs between (1 thread, schedule seed %d) and (%d threads, schedule seed %d): %s", n, c.SchedSeed[0], c.Threads, c.SchedSeed[1], firstDiff(a.files[n], b.files[n]))
			return
		}
	}
	o.Sample = map[string]interface{}{"mode": "sched", "args": c.Args, "threads": []int{1, c.Threads}, "steps": []int{a.sr.Steps, b.sr.Steps}, "policies": []string{policyNames[c.Policy[0]%nPolicies], policyNames[c.Policy[1]%nPolicies]}, "trace_head": head(b.sr.Trace, 10)}
}

// resetCobraFlags puts every flag of every command back to its default: cobra keeps flag values between two
// executions in one process, and a replay in a fresh process must see what the batch run saw.
func resetCobraFlags(cmd *cobra.Command) {
	reset := func(f *pflag.Flag) {
		f.Value.Set(f.DefValue)
		f.Changed = false
	}
	cmd.Flags().VisitAll(reset)
	cmd.PersistentFlags().VisitAll(reset)
	for _, sub := range cmd.Commands() {
		resetCobraFlags(sub)
	}
}

func (c11) Shrink(ci interface{}) []interface{} {
	c := ci.(*C11Case)
	var out []interface{}
	add := func(f func(n *C11Case) bool) {
		n := cloneCase(c11{}, c).(*C11Case)
		if f(n) {
			out = append(out, n)
		}
	}
	if c.Threads > 2 {
		add(func(n *C11Case) bool { n.Threads = 2; return true })
	}
	if c.MapSeed[0] != c.MapSeed[1] {
		add(func(n *C11Case) bool { n.MapSeed[1] = n.MapSeed[0]; return true })
	}
	if c.Clock[0] != c.Clock[1] {
		add(func(n *C11Case) bool { n.Clock[1] = n.Clock[0]; return true })
	}
	// fewer rows / columns in the main input
	for _, name := range []string{"nt.fa", "aa.fa", "orf.fa"} {
		name := name
		lines := strings.Split(strings.TrimSpace(c.Files[name]), "\n")
		if len(lines) > 4 {
			add(func(n *C11Case) bool {
				n.Files[name] = strings.Join(lines[:len(lines)-2], "\n") + "\n"
				if name == "nt.fa" {
					delete(n.Files, "nt.phy")
				}
				return true
			})
		}
	}
	return out
}
