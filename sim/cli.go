package sim

import (
	"fmt"
	"os"
	"path/filepath"
	"strings"

	gcmd "github.com/evolbioinfo/goalign/cmd"
	"github.com/evolbioinfo/goalign/verifrt"
)

// inprocResult is what one execution of goalign's command tree inside this
// process leaves behind: every file of its directory that is not an input
// (stdout.txt is what the command printed), the exit status it asked for
// (-1 = none) and what the scheduler saw.
type inprocResult struct {
	files map[string][]byte
	sr    SchedResult
	err   error
	exit  int
}

// runInProc executes cmd.RootCmd with the given arguments in a directory of
// its own, under the FIFO policy of the seeded scheduler (every goroutine the
// command starts is owned; an os.Exit of the command is a recorded event, not
// the end of the worker), with the map-order and clock seams set as asked.
func runInProc(ctx *Ctx, args []string, files map[string]string, mapseed uint64, clock int64, left ...map[string][]byte) (res inprocResult) {
	c11RunSeq++
	dir, err := os.MkdirTemp(".", fmt.Sprintf("inproc-%d-", c11RunSeq))
	if err != nil {
		panic("harness: " + err.Error())
	}
	defer os.RemoveAll(dir)
	abs, _ := filepath.Abs(dir)
	for n, s := range files {
		os.WriteFile(filepath.Join(dir, n), []byte(s), 0644)
	}
	// what an earlier execution left in the directory (outputs of the same names: they are compared like any output)
	for _, m := range left {
		for n, b := range m {
			if n != "stdout.txt" {
				os.MkdirAll(filepath.Dir(filepath.Join(dir, n)), 0755)
				os.WriteFile(filepath.Join(dir, n), b, 0644)
			}
		}
	}
	verifrt.SetMapSeed(mapseed, true)
	verifrt.SetClock(clock, true)
	defer verifrt.SetMapSeed(0, false)
	defer verifrt.SetClock(0, false)
	if wd, err := os.Getwd(); err == nil {
		os.Chdir(abs)
		defer os.Chdir(wd)
	}
	resetCobraFlags(gcmd.RootCmd)
	oldStdout := os.Stdout
	if sf, err := os.Create(filepath.Join(abs, "stdout.txt")); err == nil {
		os.Stdout = sf
		defer func() { os.Stdout = oldStdout; sf.Close() }()
	}
	res.exit = -1
	res.sr = RunSched(ctx.T, SchedCfg{Seed: 1, Policy: PolFIFO, MaxSteps: 400000}, func() {
		gcmd.RootCmd.SetArgs(args)
		res.err = gcmd.RootCmd.Execute()
	})
	for _, p := range res.sr.Panics {
		if p.Exit >= 0 {
			res.exit = p.Exit
		}
	}
	res.files = map[string][]byte{}
	filepath.Walk(abs, func(p string, info os.FileInfo, err error) error {
		if err != nil || info.IsDir() {
			return nil
		}
		rel, _ := filepath.Rel(abs, p)
		if _, isInput := files[rel]; isInput {
			return nil
		}
		if b, e := os.ReadFile(p); e == nil {
			res.files[rel] = b
		}
		return nil
	})
	return
}

// parseFastaText reads the plain FASTA text goalign writes (harness side, no goalign code).
func parseFastaText(b []byte) (names, seqs []string) {
	for _, line := range strings.Split(string(b), "\n") {
		line = strings.TrimRight(line, "\r")
		if strings.HasPrefix(line, ">") {
			names = append(names, line[1:])
			seqs = append(seqs, "")
		} else if len(seqs) > 0 {
			seqs[len(seqs)-1] += line
		}
	}
	return
}
