package sim

import (
	"fmt"
	"math"
	"os"
	"runtime/debug"
	"sort"
	"strings"

	"github.com/evolbioinfo/goalign/align"
	"github.com/evolbioinfo/goalign/io/countprofile"
	"github.com/evolbioinfo/goalign/io/fasta"
	"github.com/evolbioinfo/goalign/verifrt"
)

// C14 — Column statistics and consensus match definitions and are
// deterministic. What the simulator owns: Go's randomised map iteration
// order, put behind a seam by seamgen (rule R1). Every statistic is evaluated
// under map-order seeds a (twice), b and c; a tie met in a different order, a
// floating sum re-associated, or a result slice built in map order shows as a
// difference. The naive definitions and the site-index clause ride on the
// same evaluations.

type C14Case struct {
	Aln      AlnSpec   `json:"aln"`
	Prof     []string  `json:"prof,omitempty"` // rows of another alignment of the same length: the count profile to compare with
	MapSeeds [3]uint64 `json:"map_seeds"`
	Ref      int       `json:"ref"` // reference row for the reference-relative counters
	Cli      int       `json:"cli,omitempty"`       // > 0: that many of the statistics commands are also executed through the command tree (which ones: drawn from the case)
	FromFile bool      `json:"from_file,omitempty"` // the alignment's own count profile also goes through a profile file (io/countprofile.FromFile)
}

type c14 struct{}

func init() { Register(c14{}) }

func (c14) ID() string       { return "C14" }
func (c14) New() interface{} { return &C14Case{} }
func (c14) Rule() string {
	return "each run: a nucleotide or protein alignment of 1-7 rows x 1-10 columns whose columns are drawn from small palettes (2-3 letters, so that ties for the most frequent character are the rule), with all-gap, all-N/X, gap+N and single-kind columns and mixed case in a quarter of the runs; ~45 statistics are evaluated under map-iteration seeds a, a again, b and c (Go's map order is behind the seam spliced by seamgen); site indices -1, L, L+1 are tried on every function that takes one; a decoy alignment of the same names and shape is evaluated before the first evaluation and between the first and the second; count profiles that do not cover the alignment must be refused. Distinct = distinct alignment content; non-trivial = at least 2 rows and at least one column with a tie for the most frequent admissible character. One run in 170 has 99-257 columns; there and in one run in ten of the others the alignment's own count profile also goes through a profile file. One run in eight ends with 1-4 of some 90 statistics command lines (stats and stats --per-sequences, stats char in its three modes with --only, stats maxchar, consensus, compute entropy and pssm, stats gaps / mutations / mutations list / alleles / length / nseq, diff in both directions, with their flags) executed through the command tree in the same process: what they print must be the values of the library calls in the documented layout."
}

func (c14) Gen(rs uint64, tier string, race bool) interface{} {
	r := NewRand(rs)
	c := &C14Case{}
	a := &c.Aln
	a.Alphabet = align.NUCLEOTIDS
	core, all := "ACGT", byte('N')
	if r.Chance(0.4) {
		a.Alphabet = align.AMINOACIDS
		core, all = "ARNDCQEGHILKMFPSTWYV", 'X'
	}
	n := 1 + r.Intn(7)
	l := 1 + r.Intn(10)
	lower := r.Chance(0.25)
	if r.Chance(0.05) {
		n = r.Range(8, 26) // enough rows for a column to hold more kinds of characters than the alphabet has letters
	}
	tall := r.Chance(0.004)
	if tall {
		// many rows: counts around the capacity of a byte (a character carried 255, 256, 257 ... times in a column)
		n = r.Pick(255, 256, 257, 258, 300, 512, 513, 514)
		l = r.Range(1, 3)
	}
	wide := !tall && r.Chance(0.006)
	if wide {
		// many columns: count profiles read from a file grow site by site past their first capacity
		n = r.Range(1, 4)
		l = r.Pick(99, 100, 101, 102, 130, 199, 200, 201, 257)
	}
	c.FromFile = wide || r.Chance(0.1)
	if wide && r.Chance(0.8) {
		lower = false
	}
	cols := make([][]byte, l)
	for k := range cols {
		col := make([]byte, n)
		var pal []byte
		switch r.Intn(13) {
		case 12:
			// a column with more kinds of characters than the alphabet has letters (ambiguity codes, N / X, both cases)
			pal = []byte(core + string(all) + "RYKM")
			if len(core) == 4 {
				pal = append(pal, "acgtn"...)
			} else {
				pal = append(pal, "BZarndcq"...)
			}
		case 0:
			pal = []byte{'-'}
		case 1:
			pal = []byte{all}
		case 2:
			pal = []byte{'-', all}
		case 3:
			pal = []byte{core[r.Intn(len(core))]}
		case 4:
			pal = []byte{core[r.Intn(len(core))], '-'}
		case 5:
			pal = []byte{core[r.Intn(len(core))], all, '-'}
		default:
			for k := r.Range(2, 3); k > 0; k-- {
				pal = append(pal, core[r.Intn(len(core))])
			}
			if r.Chance(0.2) {
				pal = append(pal, "RYKM"[r.Intn(4)]) // IUPAC ambiguity (also amino acids)
			}
		}
		if r.Chance(0.08) && !(wide && r.Chance(0.995)) {
			pal = append(pal, "*."[r.Intn(2)]) // stop / missing, identity marker: not counted by the entropy
		}
		for i := range col {
			col[i] = pal[r.Intn(len(pal))]
			if tall {
				// one character of the palette in all rows but 0-2 of them
				col[i] = pal[0]
				if i < r.Intn(3) && len(pal) > 1 {
					col[i] = pal[1]
				}
			}
			if lower && r.Chance(0.35) && col[i] >= 'A' && col[i] <= 'Z' {
				col[i] += 'a' - 'A'
			}
		}
		if tall && n > 2 {
			j := r.Intn(n)
			col[0], col[j] = col[j], col[0]
			j = r.Intn(n)
			col[1], col[j] = col[j], col[1]
		}
		cols[k] = col
	}
	if wide && !lower {
		for _, col := range cols {
			for i := range col {
				if col[i] >= 'a' && col[i] <= 'z' {
					col[i] -= 'a' - 'A'
				}
			}
		}
	}
	if a.Alphabet == align.NUCLEOTIDS && !tall && !wide && r.Chance(0.06) {
		// a codon alignment: every gap is a whole codon (the codon-by-codon mutation list has insertions and deletions
		// to report, and no frame shift)
		l = 3 * r.Range(1, 5)
		cols = make([][]byte, l)
		for k := range cols {
			cols[k] = make([]byte, n)
		}
		for i := 0; i < n; i++ {
			for cd := 0; cd < l/3; cd++ {
				cod := []byte{"ACGT"[r.Intn(4)], "ACGT"[r.Intn(4)], "ACGT"[r.Intn(4)]}
				if r.Chance(0.5) {
					cod = []byte([]string{"ATG", "GCT", "GCT", "TGG", "CCG", "TAA"}[r.Intn(6)]) // few kinds: rows often agree
				}
				if r.Chance(0.25) {
					cod = []byte("---")
				}
				for j := 0; j < 3; j++ {
					cols[3*cd+j][i] = cod[j]
				}
			}
		}
	}
	for i := 0; i < n; i++ {
		s := make([]byte, l)
		for k := range s {
			s[k] = cols[k][i]
		}
		a.Names = append(a.Names, fmt.Sprintf("s%d", i))
		a.Seqs = append(a.Seqs, string(s))
	}
	if a.Alphabet == align.AMINOACIDS {
		// keep the alphabet detectable as drawn
		s := []byte(a.Seqs[0])
		s[0] = "EFILPQ"[r.Intn(6)]
		a.Seqs[0] = string(s)
	}
	c.MapSeeds = [3]uint64{r.U64(), r.U64(), r.U64()}
	if !tall && !wide && r.Chance(0.12) {
		c.Cli = r.Range(1, 4)
	}
	c.Ref = r.Intn(n)
	// a profile from other rows over the same columns (some characters of the alignment are new to it)
	for i := r.Range(1, 4); i > 0; i-- {
		row := make([]byte, l)
		for k := range row {
			row[k] = cols[k][r.Intn(n)]
			if r.Chance(0.25) {
				row[k] = core[r.Intn(len(core))]
			}
			if row[k] >= 'a' && row[k] <= 'z' {
				row[k] -= 'a' - 'A'
			}
		}
		c.Prof = append(c.Prof, string(row))
	}
	return c
}

// statSet is the result of evaluating every statistic once.
type statSet struct {
	keys   []string
	disc   map[string]string    // discrete results, compared exactly
	floats map[string][]float64 // floating results, compared to 1e-12 relative
	// for the definition checks
	maxChars  [4][]uint8
	maxOccur  [4][]int
	maxTotal  [4][]int
	consensus [4]string
}

func (s *statSet) d(k, v string) {
	if _, ok := s.disc[k]; !ok {
		s.keys = append(s.keys, k)
	}
	s.disc[k] = v
}
func (s *statSet) f(k string, v []float64) {
	if _, ok := s.floats[k]; !ok {
		s.keys = append(s.keys, k)
	}
	s.floats[k] = v
}

func fmtCounts[V int | int64](m map[uint8]V) string {
	ks := make([]int, 0, len(m))
	for k := range m {
		ks = append(ks, int(k))
	}
	sort.Ints(ks)
	var sb strings.Builder
	for _, k := range ks {
		fmt.Fprintf(&sb, "%c=%d,", k, m[uint8(k)])
	}
	return sb.String()
}

func snapRows(al align.Alignment) string {
	var sb strings.Builder
	al.Iterate(func(n, q string) bool { sb.WriteString(n + ":" + q + "|"); return false })
	return sb.String()
}

var optPairs = [4][2]bool{{false, false}, {false, true}, {true, false}, {true, true}}

func c14Eval(c *C14Case, al align.Alignment) *statSet {
	s := &statSet{disc: map[string]string{}, floats: map[string][]float64{}}
	L := al.Length()
	for k, op := range optPairs {
		ch, oc, tt := al.MaxCharStats(op[0], op[1])
		s.maxChars[k], s.maxOccur[k], s.maxTotal[k] = ch, oc, tt
		s.d(fmt.Sprintf("MaxCharStats(%v,%v).chars", op[0], op[1]), string(ch))
		s.d(fmt.Sprintf("MaxCharStats(%v,%v).occur", op[0], op[1]), fmt.Sprint(oc))
		s.d(fmt.Sprintf("MaxCharStats(%v,%v).total", op[0], op[1]), fmt.Sprint(tt))
		cons := al.Consensus(op[0], op[1])
		cs, _ := cons.GetSequenceById(0)
		s.consensus[k] = cs
		s.d(fmt.Sprintf("Consensus(%v,%v)", op[0], op[1]), cs)
	}
	s.d("CharStats", fmtCounts(al.CharStats()))
	s.d("UniqueCharacters", string(al.UniqueCharacters()))
	for i := 0; i < al.NbSequences(); i++ {
		m, err := al.CharStatsSeq(i)
		s.d(fmt.Sprintf("CharStatsSeq(%d)", i), fmtCounts(m)+fmt.Sprint(err))
	}
	var ent, entg []float64
	for site := 0; site < L; site++ {
		m, err := al.CharStatsSite(site)
		s.d(fmt.Sprintf("CharStatsSite(%d)", site), fmtCounts(m)+fmt.Sprint(err))
		e, _ := al.Entropy(site, false)
		e2, _ := al.Entropy(site, true)
		ent = append(ent, e)
		entg = append(entg, e2)
		cv, _ := al.SiteConservation(site)
		s.d(fmt.Sprintf("SiteConservation(%d)", site), fmt.Sprint(cv))
	}
	s.f("Entropy(.,false)", ent)
	s.f("Entropy(.,true)", entg)
	for _, norm := range []int{align.PSSM_NORM_NONE, align.PSSM_NORM_FREQ, align.PSSM_NORM_DATA, align.PSSM_NORM_UNIF, align.PSSM_NORM_LOGO} {
		for _, lg := range []bool{false, true} {
			for _, pc := range []float64{0, 0.5} {
				p, err := al.Pssm(lg, pc, norm)
				key := fmt.Sprintf("Pssm(log=%v,pseudo=%v,norm=%d)", lg, pc, norm)
				ks := make([]int, 0, len(p))
				for k := range p {
					ks = append(ks, int(k))
				}
				sort.Ints(ks)
				var flat []float64
				hdr := ""
				for _, k := range ks {
					hdr += string(rune(k))
					flat = append(flat, p[uint8(k)]...)
				}
				s.d(key+".rows", hdr+fmt.Sprint(err))
				s.f(key, flat)
			}
		}
	}
	s.d("NbVariableSites", fmt.Sprint(al.NbVariableSites()))
	s.d("InformativeSites", fmt.Sprint(al.InformativeSites()))
	s.f("AvgAllelesPerSite", []float64{al.AvgAllelesPerSite()})
	ad, dd := al.CountDifferences()
	s.d("CountDifferences.all", fmt.Sprint(ad))
	var ds []string
	for _, m := range dd {
		ks := make([]string, 0, len(m))
		for k := range m {
			ks = append(ks, k)
		}
		sort.Strings(ks)
		x := ""
		for _, k := range ks {
			x += fmt.Sprintf("%s=%d,", k, m[k])
		}
		ds = append(ds, x)
	}
	s.d("CountDifferences.perseq", strings.Join(ds, "|"))
	prof := align.NewCountProfileFromAlignment(al)
	var ps strings.Builder
	for i := 0; i < prof.NbCharacters(); i++ {
		nm, _ := prof.NameAt(i)
		cs, _ := prof.CountsAt(i)
		fmt.Fprintf(&ps, "%c%v", nm, cs)
	}
	s.d("CountProfile", ps.String())
	if prof.NbCharacters() > 0 {
		// a count asked for outside the alignment is an error (sites -1, L, L+1), for a character the profile holds
		nm0, _ := prof.NameAt(0)
		_, ea := prof.Count(nm0, -1)
		_, eb := prof.Count(nm0, L)
		_, ec := prof.Count(nm0, L+1)
		_, ed := prof.CountAt(0, L)
		s.d("CountProfile.Count(outside)", fmt.Sprint(ea != nil, eb != nil, ec != nil, ed != nil))
	}
	g1, g2, g3, gerr := al.NumGapsUniquePerSequence(prof)
	s.d("NumGapsUniquePerSequence", fmt.Sprint(g1, g2, g3, gerr))
	m1, m2, m3, merr := al.NumMutationsUniquePerSequence(prof)
	s.d("NumMutationsUniquePerSequence", fmt.Sprint(m1, m2, m3, merr))
	if len(c.Prof) > 0 && len(c.Prof[0]) == L {
		pal := align.NewAlign(al.Alphabet())
		for i, row := range c.Prof {
			pal.AddSequence(fmt.Sprintf("p%d", i), row, "")
		}
		p2 := align.NewCountProfileFromAlignment(pal)
		x1, x2, x3, xe := al.NumGapsUniquePerSequence(p2)
		s.d("NumGapsUniquePerSequence(other)", fmt.Sprint(x1, x2, x3, xe))
		y1, y2, y3, ye := al.NumMutationsUniquePerSequence(p2)
		s.d("NumMutationsUniquePerSequence(other)", fmt.Sprint(y1, y2, y3, ye))
		// a profile that does not cover the alignment - one site short or long in every row, or in one row only (a
		// profile file whose last line was cut) - has no count for some column: no number can equal the definition there
		for _, kind := range []string{"all-short", "all-long", "one-row-short"} {
			nc := p2.NbCharacters()
			if L < 2 || nc < 2 {
				break
			}
			p3 := align.NewCountProfile()
			hdr := make([]uint8, nc)
			for i := range hdr {
				hdr[i], _ = p2.NameAt(i)
			}
			p3.SetHeader(hdr)
			for i := 0; i < nc; i++ {
				cs, _ := p2.CountsAt(i)
				for site, v := range cs {
					if site == L-1 && (kind == "all-short" || (kind == "one-row-short" && i == nc-1)) {
						continue
					}
					p3.AppendCount(i, v)
				}
				if kind == "all-long" {
					p3.AppendCount(i, 0)
				}
			}
			_, _, _, e1 := al.NumGapsUniquePerSequence(p3)
			_, _, _, e2 := al.NumMutationsUniquePerSequence(p3)
			s.d("profile-not-covering("+kind+")", fmt.Sprint(e1 != nil, e2 != nil))
		}
	}
	g1, g2, g3, gerr = al.NumGapsUniquePerSequence(nil)
	s.d("NumGapsUniquePerSequence(nil)", fmt.Sprint(g1, g2, g3, gerr))
	if c.FromFile && prof.NbCharacters() > 0 && L > 0 {
		// the same profile written as a profile file (the layout CountProfile.Print gives it) and read back
		var tb strings.Builder
		tb.WriteString("site")
		nc := prof.NbCharacters()
		rows := make([][]int, nc)
		for i := 0; i < nc; i++ {
			nm, _ := prof.NameAt(i)
			fmt.Fprintf(&tb, "\t%c", nm)
			rows[i], _ = prof.CountsAt(i)
		}
		tb.WriteString("\n")
		for site := 0; site < L; site++ {
			fmt.Fprintf(&tb, "%d", site)
			for i := 0; i < nc; i++ {
				fmt.Fprintf(&tb, "\t%d", rows[i][site])
			}
			tb.WriteString("\n")
		}
		if f, err := os.CreateTemp("", "c14prof*.txt"); err == nil {
			f.WriteString(tb.String())
			f.Close()
			pf, perr := countprofile.FromFile(f.Name())
			os.Remove(f.Name())
			if perr != nil || pf == nil {
				s.d("CountProfile.fromfile.sorted", fmt.Sprint("error: ", perr))
			} else {
				var ft []string
				for i := 0; i < pf.NbCharacters(); i++ {
					nm, _ := pf.NameAt(i)
					cs, _ := pf.CountsAt(i)
					ft = append(ft, fmt.Sprintf("%c%v", nm, cs))
				}
				sort.Strings(ft)
				s.d("CountProfile.fromfile.sorted", strings.Join(ft, ";"))
				f1, f2, f3, ferr := al.NumGapsUniquePerSequence(pf)
				s.d("NumGapsUniquePerSequence(fromfile)", fmt.Sprint(f1, f2, f3, ferr))
				h1, h2, h3, herr := al.NumMutationsUniquePerSequence(pf)
				s.d("NumMutationsUniquePerSequence(fromfile)", fmt.Sprint(h1, h2, h3, herr))
			}
		}
	}
	// the count profile as a table, for the definition check
	var pt []string
	for i := 0; i < prof.NbCharacters(); i++ {
		nm, _ := prof.NameAt(i)
		cs, _ := prof.CountsAt(i)
		pt = append(pt, fmt.Sprintf("%c%v", nm, cs))
	}
	sort.Strings(pt)
	s.d("CountProfile.sorted", strings.Join(pt, ";"))
	ad2 := append([]string{}, ad...)
	sort.Strings(ad2)
	s.d("CountDifferences.all.sorted", fmt.Sprint(ad2))
	seqObjs := al.Sequences()
	if c.Ref >= 0 && c.Ref < len(seqObjs) {
		ref := seqObjs[c.Ref]
		var nm, lm []string
		for i := 0; i < al.NbSequences(); i++ {
			sq := seqObjs[i]
			k, err := sq.NumMutationsComparedToReferenceSequence(al.Alphabet(), ref)
			nm = append(nm, fmt.Sprint(k, err))
			for _, aa := range []bool{false} {
				ms, err := sq.ListMutationsComparedToReferenceSequence(al.Alphabet(), ref, aa)
				x := ""
				for _, m := range ms {
					x += fmt.Sprintf("%c%d%s,", m.Ref, m.Pos, string(m.Alt))
				}
				lm = append(lm, x+fmt.Sprint(err))
			}
		}
		s.d("NumMutationsComparedToReferenceSequence", strings.Join(nm, "|"))
		s.d("ListMutationsComparedToReferenceSequence", strings.Join(lm, "|"))
		// codon by codon (the --aa mode of stats mutations list)
		var la []string
		for i := 0; i < al.NbSequences(); i++ {
			ms, err := seqObjs[i].ListMutationsComparedToReferenceSequence(al.Alphabet(), ref, true)
			x := ""
			for _, m := range ms {
				x += fmt.Sprintf("%c%d%s,", m.Ref, m.Pos, string(m.Alt))
			}
			la = append(la, x+fmt.Sprint(err))
		}
		s.d("ListMutationsComparedToReferenceSequence.aa", strings.Join(la, "|"))
	}
	// operations whose result inherits the majority character
	if cl, err := al.Clone(); err == nil {
		cl.MaskUnique("", "MAJ")
		s.d("MaskUnique(MAJ)", snapRows(cl))
	}
	if cl, err := al.Clone(); err == nil {
		cl.MaskOccurences("", 1, "MAJ")
		s.d("MaskOccurences(1,MAJ)", snapRows(cl))
	}
	if cl, err := al.Clone(); err == nil {
		cl.Mask("", 0, L, "MAJ", false, false)
		s.d("Mask(MAJ)", snapRows(cl))
	}
	if cl, err := al.Clone(); err == nil {
		f, l, kept, rm := cl.RemoveMajorityCharacterSites(0.6, false, false, false)
		s.d("RemoveMajorityCharacterSites(0.6)", fmt.Sprint(f, l, kept, rm)+snapRows(cl))
	}
	return s
}

func floatsDiffer(a, b []float64) (int, bool) {
	if len(a) != len(b) {
		return -1, true
	}
	for i := range a {
		x, y := a[i], b[i]
		if math.IsNaN(x) && math.IsNaN(y) {
			continue
		}
		if math.IsInf(x, 0) || math.IsInf(y, 0) {
			if x != y {
				return i, true
			}
			continue
		}
		if math.IsNaN(x) != math.IsNaN(y) {
			return i, true
		}
		if d := math.Abs(x - y); d > 1e-12*math.Max(math.Abs(x), math.Abs(y)) && d > 1e-300 {
			return i, true
		}
	}
	return 0, false
}

func funcOfKey(k string) string {
	if i := strings.IndexAny(k, "(."); i > 0 {
		return k[:i]
	}
	return k
}

func (c14) Run(ctx *Ctx, ci interface{}) (o Outcome) {
	c := ci.(*C14Case)
	a := &c.Aln
	al, err := buildOriginal(a)
	if err != nil {
		panic("harness: " + err.Error())
	}
	before := snapshotAlign(al)
	n, L := len(a.Names), len(a.Seqs[0])
	desc := func() string { return "alignment:\n" + a.String() }
	defer verifrt.SetMapSeed(0, false)

	guarded := func(what string, f func()) bool {
		ok := true
		func() {
			defer func() {
				if p := recover(); p != nil {
					ok = false
					st := string(debug.Stack())
					fs := goalignFuncs(st)
					top := "?"
					if len(fs) > 0 {
						top = fs[0]
					}
					o.Fail("crash:"+top, "%s panicked: %v\n%s\n%s", what, p, desc(), st)
				}
			}()
			f()
		}()
		return ok
	}

	defer func() {
		if c.Cli > 0 && o.V == nil {
			c.runCLI(ctx, &o, al)
		}
		if o.V == nil && n >= 1 && L >= 1 && Mix(c.MapSeeds[2], "edit")%4 == 0 {
			// the alignment the statistics were asked of is edited in place (one residue): what it answers then must
			// be what a fresh alignment of the same content answers - no statistic may remember the columns as they were
			i, k := int(Mix(c.MapSeeds[2], "row")%uint64(n)), int(Mix(c.MapSeeds[2], "site")%uint64(L))
			old := a.Seqs[i][k]
			repl := byte('C')
			if old == 'C' || old == 'c' {
				repl = 'G'
			}
			spec := AlnSpec{Alphabet: a.Alphabet, Names: a.Names, Seqs: append([]string{}, a.Seqs...)}
			b := []byte(spec.Seqs[i])
			b[k] = repl
			spec.Seqs[i] = string(b)
			fresh, err := buildOriginal(&spec)
			if err != nil || fresh.Alphabet() != al.Alphabet() {
				return
			}
			if al.SetSequenceChar(i, k, repl) != nil {
				return
			}
			var sa, sb *statSet
			verifrt.SetMapSeed(c.MapSeeds[0], true)
			if !guarded("evaluating the statistics after an edit", func() { sa = c14Eval(c, al) }) {
				return
			}
			verifrt.SetMapSeed(c.MapSeeds[0], true)
			if !guarded("evaluating the statistics of a fresh alignment", func() { sb = c14Eval(c, fresh) }) {
				return
			}
			o.Add("statistics_after_an_edit_compared_with_a_fresh_alignment", 1)
			for _, key := range sb.keys {
				if x, ok := sb.disc[key]; ok && sa.disc[key] != x {
					o.Fail("stale-after-edit:"+funcOfKey(key), "%s: after row %d, site %d was set to %c in place the alignment answers %s, a fresh alignment of the same content answers %s\nalignment before the edit:\n%s", key, i, k, repl, clip(sa.disc[key], 300), clip(x, 300), a.String())
					return
				}
				if x, ok := sb.floats[key]; ok {
					if at, bad := floatsDiffer(sa.floats[key], x); bad {
						o.Fail("stale-after-edit:"+funcOfKey(key), "%s: after row %d, site %d was set to %c in place the alignment's answer differs (index %d) from that of a fresh alignment of the same content\nalignment before the edit:\n%s", key, i, k, repl, at, a.String())
						return
					}
				}
			}
		}
	}()

	// --- determinism under map orders -----------------------------------
	var sets [4]*statSet
	seeds := [4]uint64{c.MapSeeds[0], c.MapSeeds[0], c.MapSeeds[1], c.MapSeeds[2]}
	// before the first and between the first and the second evaluation the same statistics are asked of another alignment with the same
	// names and shape (every row rotated by one residue): an answer kept from an earlier call shows as a difference
	var decoy align.Alignment
	if L >= 2 {
		d := align.NewAlign(al.Alphabet())
		for i := range a.Names {
			d.AddSequence(a.Names[i], a.Seqs[i][1:]+a.Seqs[i][:1], "")
		}
		if d.NbSequences() == n {
			decoy = d
		}
	}
	if decoy != nil {
		// ... and before the first one: whatever a call keeps for the next one then comes from the decoy
		verifrt.SetMapSeed(seeds[3], true)
		if !guarded("evaluating the statistics of the decoy alignment", func() { c14Eval(c, decoy) }) {
			return
		}
	}
	for k := range sets {
		verifrt.SetMapSeed(seeds[k], true)
		if !guarded("evaluating the statistics", func() { sets[k] = c14Eval(c, al) }) {
			return
		}
		if k == 0 && decoy != nil {
			if !guarded("evaluating the statistics of the decoy alignment", func() { c14Eval(c, decoy) }) {
				return
			}
			o.Add("decoy_alignment_between_two_evaluations", 1)
		}
	}
	o.Add("map_iterations_controlled", int64(verifrt.MapCalls()))
	verifrt.SetMapSeed(0, false)
	o.Add("statistics_evaluated", int64(4*len(sets[0].keys)))
	for _, k := range sets[0].keys {
		for j := 1; j < 4; j++ {
			differs := false
			detail := ""
			if v, ok := sets[0].disc[k]; ok {
				if v != sets[j].disc[k] {
					differs = true
					detail = fmt.Sprintf("%q vs %q", v, sets[j].disc[k])
				}
			} else if i, d := floatsDiffer(sets[0].floats[k], sets[j].floats[k]); d {
				differs = true
				detail = fmt.Sprintf("element %d: %v vs %v", i, sets[0].floats[k], sets[j].floats[k])
			}
			if !differs {
				continue
			}
			if j == 1 {
				o.Fail("unstable-same-map-order:"+funcOfKey(k), "%s gives two answers under the SAME map-iteration order (another hidden source of nondeterminism): %s\n%s", k, detail, desc())
			} else {
				o.Fail("map-order-dependent:"+funcOfKey(k), "%s depends on Go's map iteration order (two executions of the same program can answer differently): %s under map seeds %d and %d\n%s", k, detail, seeds[0], seeds[j], desc())
			}
			return
		}
	}
	if snapshotAlign(al) != before {
		o.Fail("input-modified:statistics", "a statistic modified the alignment it was computed on\n%s", desc())
		return
	}

	// --- site index outside the alignment: an error, not a crash --------
	for _, site := range []int{-1, L, L + 1} {
		site := site
		type probe struct {
			name string
			f    func() error
		}
		for _, p := range []probe{
			{"CharStatsSite", func() error { _, e := al.CharStatsSite(site); return e }},
			{"Entropy", func() error { _, e := al.Entropy(site, false); return e }},
			{"Entropy(removegaps)", func() error { _, e := al.Entropy(site, true); return e }},
			{"SiteConservation", func() error { _, e := al.SiteConservation(site); return e }},
		} {
			var e error
			if !guarded(fmt.Sprintf("%s(site=%d) on an alignment of length %d", p.name, site, L), func() { e = p.f() }) {
				return
			}
			o.Add("site_index_probes", 1)
			if e == nil {
				o.Fail("no-error:site-index:"+funcOfKey(p.name), "%s(site=%d) on an alignment of length %d reports no error\n%s", p.name, site, L, desc())
				return
			}
		}
	}
	for _, idx := range []int{-1, n} {
		idx := idx
		var e error
		if !guarded(fmt.Sprintf("CharStatsSeq(%d)", idx), func() { _, e = al.CharStatsSeq(idx) }) {
			return
		}
		if e == nil {
			o.Fail("no-error:seq-index:CharStatsSeq", "CharStatsSeq(%d) with %d sequences reports no error", idx, n)
			return
		}
	}

	// --- naive definitions (no map, goroutine or stream in them: they ride along) ---
	up := func(b byte) byte {
		if b >= 'a' && b <= 'z' {
			return b - ('a' - 'A')
		}
		return b
	}
	hasLower := false
	hasSpecial := false // '*' (stop / missing) or '.' (identity with the first row): only the clauses that name them are evaluated
	for _, s := range a.Seqs {
		if s != strings.ToUpper(s) {
			hasLower = true
		}
		if strings.ContainsAny(s, "*.") {
			hasSpecial = true
		}
	}
	allc := byte('N')
	if al.Alphabet() == align.AMINOACIDS {
		allc = 'X'
	}
	s0 := sets[0]
	tie := false
	total := map[uint8]int64{}
	for site := 0; site < L; site++ {
		cnt := map[uint8]int{}
		for i := 0; i < n; i++ {
			cnt[up(a.Seqs[i][site])]++
			total[up(a.Seqs[i][site])]++
		}
		if got := s0.disc[fmt.Sprintf("CharStatsSite(%d)", site)]; got != fmtCounts(cnt)+"<nil>" {
			o.Fail("definition:CharStatsSite", "site %d: case-folded counts are %s, CharStatsSite says %s\n%s", site, fmtCounts(cnt), got, desc())
			return
		}
		for k, op := range optPairs {
			best, sum := 0, 0
			for ch, v := range cnt {
				if (op[0] && ch == '-') || (op[1] && ch == allc) {
					continue
				}
				sum += v
				if v > best {
					best = v
				}
			}
			nbest := 0
			for ch, v := range cnt {
				if (op[0] && ch == '-') || (op[1] && ch == allc) {
					continue
				}
				if v == best {
					nbest++
				}
			}
			if nbest >= 2 && n >= 2 {
				tie = true
			}
			got := s0.maxChars[k][site]
			name := fmt.Sprintf("MaxCharStats(%v,%v)", op[0], op[1])
			if best > 0 {
				if cnt[got] != best || (op[0] && got == '-') || (op[1] && got == allc) {
					o.Fail("definition:MaxCharStats", "%s site %d: %q is not a most frequent admissible character (counts %s)\n%s", name, site, got, fmtCounts(cnt), desc())
					return
				}
				if s0.maxOccur[k][site] != best || s0.maxTotal[k][site] != sum {
					o.Fail("definition:MaxCharStats", "%s site %d: occurrences %d of %d reported, %d of %d by definition (counts %s)\n%s", name, site, s0.maxOccur[k][site], s0.maxTotal[k][site], best, sum, fmtCounts(cnt), desc())
					return
				}
			} else if len(cnt) == 1 {
				// nothing admissible, one kind present: falls back to it
				if cnt[got] == 0 {
					o.Fail("definition:MaxCharStats", "%s site %d holds only %s but %q is reported\n%s", name, site, fmtCounts(cnt), got, desc())
					return
				}
			}
			if cs := s0.consensus[k]; len(cs) == L {
				cc := cs[site]
				if best > 0 && (cnt[cc] != best || (op[0] && cc == '-') || (op[1] && cc == allc)) {
					o.Fail("definition:Consensus", "Consensus(%v,%v) site %d: %q is not a most frequent admissible character (counts %s)\n%s", op[0], op[1], site, cc, fmtCounts(cnt), desc())
					return
				}
			} else {
				o.Fail("definition:Consensus", "the consensus has length %d, the alignment %d", len(cs), L)
				return
			}
		}
		// entropy (raw characters: only checked when the column has no lower case)
		if !hasLower {
			for _, rg := range []bool{false, true} {
				tot, ent := 0, 0.0
				for ch, v := range cnt {
					if ch == '*' || ch == '.' || (rg && ch == '-') {
						continue
					}
					tot += v
				}
				chs := make([]int, 0, len(cnt))
				for ch := range cnt {
					chs = append(chs, int(ch))
				}
				sort.Ints(chs)
				for _, chh := range chs {
					ch := uint8(chh)
					if ch == '*' || ch == '.' || (rg && ch == '-') {
						continue
					}
					p := float64(cnt[ch]) / float64(tot)
					ent -= p * math.Log(p)
				}
				got := s0.floats[fmt.Sprintf("Entropy(.,%v)", rg)][site]
				if tot == 0 {
					if !math.IsNaN(got) {
						o.Fail("definition:Entropy", "site %d has no countable character, entropy %v reported instead of NaN", site, got)
						return
					}
				} else if math.Abs(got-ent) > 1e-9 {
					o.Fail("definition:Entropy", "site %d (removegaps=%v): entropy %v reported, %v by definition (counts %s)\n%s", site, rg, got, ent, fmtCounts(cnt), desc())
					return
				}
			}
		}
	}
	o.Nontrivial = tie && n >= 2
	o.Sig = hash64(strings.Join(a.Seqs, "/"))
	if tie {
		o.Add("probe_column_with_tie_for_most_frequent", 1)
	}
	if got := s0.disc["CharStats"]; got != fmtCounts(total) {
		o.Fail("definition:CharStats", "case-folded counts are %s, CharStats says %s\n%s", fmtCounts(total), got, desc())
		return
	}
	for i := 0; i < n; i++ {
		cnt := map[uint8]int{}
		for k := 0; k < L; k++ {
			cnt[up(a.Seqs[i][k])]++
		}
		if got := s0.disc[fmt.Sprintf("CharStatsSeq(%d)", i)]; got != fmtCounts(cnt)+"<nil>" {
			o.Fail("definition:CharStatsSeq", "row %d: case-folded counts are %s, CharStatsSeq says %s\n%s", i, fmtCounts(cnt), got, desc())
			return
		}
	}
	if hasLower && !hasSpecial {
		// mixed case: counts are case-folded. Whether a lower-case n / x is "the N" that is not considered is not said:
		// every reading is accepted - fold first and then leave N (or N and X) out, or leave the upper-case N (N and X)
		// out and then fold - but the answer must be one of them
		okV, okI := map[string]bool{}, map[string]bool{}
		for mode := 0; mode < 3; mode++ { // 2: no folding at all (the documentation of the variable sites does not mention case)
			for both := 0; both < 3; both++ { // left out: nothing but gaps / N and X / the "any" character of the alphabet only
				v := 0
				inf := []int{}
				for site := 0; site < L; site++ {
					cnt := map[byte]int{}
					for i := 0; i < n; i++ {
						ch := a.Seqs[i][site]
						up := ch
						if up >= 'a' && up <= 'z' {
							up -= 32
						}
						t := ch // the character the exclusion looks at
						if mode == 0 {
							t = up
						}
						if mode == 2 {
							up = ch
						}
						if t == '-' || (both == 1 && (t == 'N' || t == 'X')) || (both == 2 && t == allc) {
							continue
						}
						cnt[up]++
					}
					if len(cnt) > 1 {
						v++
					}
					for _, skip := range []byte{allc, 0} {
						k := 0
						for ch, c := range cnt {
							if ch != skip && c >= 2 {
								k++
							}
						}
						_ = skip
						if k >= 2 {
							okI[fmt.Sprintf("%d/%d/%d:%d", mode, both, skip, site)] = true
						}
					}
					_ = inf
				}
				okV[fmt.Sprint(v)] = true
			}
		}
		// the reported list must be the list of one reading
		matched := false
		for mode := 0; mode < 3 && !matched; mode++ {
			for both := 0; both < 3 && !matched; both++ {
				for _, skip := range []byte{allc, 0} {
					lst := []int{}
					for site := 0; site < L; site++ {
						if okI[fmt.Sprintf("%d/%d/%d:%d", mode, both, skip, site)] {
							lst = append(lst, site)
						}
					}
					if s0.disc["InformativeSites"] == fmt.Sprint(lst) {
						matched = true
					}
				}
			}
		}
		if !matched {
			o.Fail("definition:InformativeSites", "informative sites %s reported for a mixed-case alignment: the list of no reading of the definition (case-folded counts, N / X left out before or after folding)\n%s", s0.disc["InformativeSites"], desc())
			return
		}
		if !okV[s0.disc["NbVariableSites"]] {
			o.Fail("definition:NbVariableSites", "%s variable sites reported for a mixed-case alignment: the number of no reading of the definition\n%s", s0.disc["NbVariableSites"], desc())
			return
		}
		o.Add("mixed_case_variable_informative_checked", 1)
	}
	if !hasLower && !hasSpecial {
		// variable and informative sites under both readings of "N/X are not considered"
		var vA, vB int
		var infA, infB []int
		for site := 0; site < L; site++ {
			cA, cB := map[byte]int{}, map[byte]int{}
			for i := 0; i < n; i++ {
				ch := a.Seqs[i][site]
				if ch == '-' || ch == '.' || ch == '*' {
					continue
				}
				cA[ch]++
				if ch != 'N' && ch != 'X' {
					cB[ch]++
				}
			}
			if len(cA) > 1 {
				vA++
			}
			if len(cB) > 1 {
				vB++
			}
			inf := func(m map[byte]int, skip byte) bool {
				k := 0
				for ch, v := range m {
					if ch != skip && v >= 2 {
						k++
					}
				}
				return k >= 2
			}
			if inf(cA, allc) {
				infA = append(infA, site)
			}
			if inf(cB, 0) {
				infB = append(infB, site)
			}
		}
		if got := s0.disc["NbVariableSites"]; got != fmt.Sprint(vA) && got != fmt.Sprint(vB) {
			o.Fail("definition:NbVariableSites", "%s variable sites reported, %d by definition (%d when N/X are not counted)\n%s", got, vA, vB, desc())
			return
		}
		if got := s0.disc["InformativeSites"]; got != fmt.Sprint(append([]int{}, infA...)) && got != fmt.Sprint(append([]int{}, infB...)) {
			o.Fail("definition:InformativeSites", "informative sites %s reported, %v by definition (%v when both N and X are left out)\n%s", got, infA, infB, desc())
			return
		}
		// frequency-normalised PSSM columns
		key := fmt.Sprintf("Pssm(log=%v,pseudo=%v,norm=%d)", false, 0.0, align.PSSM_NORM_FREQ)
		rows := strings.TrimSuffix(s0.disc[key+".rows"], "<nil>")
		flat := s0.floats[key]
		if len(flat) == len(rows)*L {
			for ri := 0; ri < len(rows); ri++ {
				for site := 0; site < L; site++ {
					k := 0
					for i := 0; i < n; i++ {
						if a.Seqs[i][site] == rows[ri] {
							k++
						}
					}
					if want := float64(k) / float64(n); math.Abs(flat[ri*L+site]-want) > 1e-12 {
						o.Fail("definition:Pssm", "frequency-normalised PSSM: %c at site %d is %v, its frequency is %v\n%s", rows[ri], site, flat[ri*L+site], want, desc())
						return
					}
				}
			}
			o.Add("pssm_columns_checked", int64(L))
			// the other count-based normalisations, with pseudo-counts and log2 scale, from their documentation:
			// none = count + pc; freq = (count + pc) / (n + |A| pc); unif = freq * |A|
			// data = freq divided by the frequency of the character among the alphabet characters of the whole alignment
			dataTotal := 0.0
			for ri := 0; ri < len(rows); ri++ {
				dataTotal += float64(total[rows[ri]])
			}
			for _, norm := range []int{align.PSSM_NORM_NONE, align.PSSM_NORM_FREQ, align.PSSM_NORM_UNIF, align.PSSM_NORM_DATA} {
				for _, lg := range []bool{false, true} {
					for _, pc := range []float64{0, 0.5} {
						k2 := fmt.Sprintf("Pssm(log=%v,pseudo=%v,norm=%d)", lg, pc, norm)
						fl := s0.floats[k2]
						if len(fl) != len(rows)*L || !strings.HasSuffix(s0.disc[k2+".rows"], "<nil>") {
							continue // the normalisation reports an error (a character of the alphabet that the data do not hold)
						}
						nA := float64(len(rows))
						for ri := 0; ri < len(rows); ri++ {
							for site := 0; site < L; site++ {
								cnt := 0
								for i := 0; i < n; i++ {
									if a.Seqs[i][site] == rows[ri] {
										cnt++
									}
								}
								want := float64(cnt) + pc
								switch norm {
								case align.PSSM_NORM_FREQ:
									want /= float64(n) + nA*pc
								case align.PSSM_NORM_UNIF:
									want = want / (float64(n) + nA*pc) * nA
								case align.PSSM_NORM_DATA:
									want = want / (float64(n) + nA*pc) / (float64(total[rows[ri]]) / dataTotal)
								}
								if lg {
									want = math.Log(want) / math.Log(2)
								}
								got := fl[ri*L+site]
								if (math.IsInf(want, -1) && math.IsInf(got, -1)) || math.Abs(got-want) <= 1e-9*math.Max(1, math.Abs(want)) {
									continue
								}
								o.Fail("definition:Pssm", "%s: %c at site %d is %v, %v by definition (count %d of %d rows)\n%s", k2, rows[ri], site, got, want, cnt, n, desc())
								return
							}
						}
					}
				}
			}
		}
	}
	if got, ok := s0.disc["CountProfile.Count(outside)"]; ok && got != "true true true true" {
		o.Fail("index-domain:CountProfile.Count", "counts asked of the profile at sites -1, L, L+1 (Count) and L (CountAt): an error is reported = %s, all four must be errors\n%s", got, desc())
		return
	}
	if got, ok := s0.disc["CountProfile.fromfile.sorted"]; ok && got != s0.disc["CountProfile.sorted"] {
		// whatever the case of the residues: a profile written to a file and read back is the profile
		o.Fail("definition:CountProfile-from-file", "the count profile of the alignment is %s; written to a profile file and read back it is %s\n%s", clip(s0.disc["CountProfile.sorted"], 400), clip(got, 400), desc())
		return
	}
	if !hasLower && !hasSpecial {
		// unique characters, count profile, unique gaps / residues per row, differences to the first row, alleles
		var uc []byte
		for ch := range total {
			uc = append(uc, ch)
		}
		sort.Slice(uc, func(i, j int) bool { return uc[i] < uc[j] })
		got := []byte(s0.disc["UniqueCharacters"])
		sort.Slice(got, func(i, j int) bool { return got[i] < got[j] })
		if string(got) != string(uc) {
			o.Fail("definition:UniqueCharacters", "characters present: %q, UniqueCharacters says %q\n%s", uc, got, desc())
			return
		}
		prof := map[byte][]int{}
		ugaps := make([]int, n)
		umuts := make([]int, n)
		zeros := make([]int, n)
		allelesA, allelesB, sitesA, sitesB := 0, 0, 0, 0
		for site := 0; site < L; site++ {
			cnt := map[byte]int{}
			for i := 0; i < n; i++ {
				ch := a.Seqs[i][site]
				cnt[ch]++
				if prof[ch] == nil {
					prof[ch] = make([]int, L)
				}
				prof[ch][site]++
			}
			kA, kB := 0, 0
			for ch := range cnt {
				if ch == '-' || ch == '.' || ch == '*' {
					continue
				}
				kA++
				if ch != 'N' && ch != 'X' {
					kB++
				}
			}
			allelesA += kA
			allelesB += kB
			if kA > 0 {
				sitesA++
			}
			if kB > 0 {
				sitesB++
			}
			for i := 0; i < n; i++ {
				ch := a.Seqs[i][site]
				if cnt[ch] != 1 {
					continue
				}
				if ch == '-' {
					ugaps[i]++
				} else if ch != allc {
					umuts[i]++
				}
			}
		}
		var pt []string
		for ch, cs := range prof {
			pt = append(pt, fmt.Sprintf("%c%v", ch, cs))
		}
		sort.Strings(pt)
		if got := s0.disc["CountProfile.sorted"]; got != strings.Join(pt, ";") {
			o.Fail("definition:CountProfile", "counts per character and site are %s, the count profile says %s\n%s", strings.Join(pt, ";"), got, desc())
			return
		}
		if got, ok := s0.disc["CountProfile.fromfile.sorted"]; ok {
			o.Add("profile_through_a_file_checked", 1)
			if got != strings.Join(pt, ";") {
				o.Fail("definition:CountProfile-from-file", "counts per character and site are %s, the count profile read back from its file says %s\n%s", clip(strings.Join(pt, ";"), 400), clip(got, 400), desc())
				return
			}
			if got, want := s0.disc["NumGapsUniquePerSequence(fromfile)"], fmt.Sprint(ugaps, zeros, zeros, nil); got != want {
				o.Fail("definition:NumGapsUniquePerSequence", "with the alignment's own profile read from a file: %s by definition, %s reported\n%s", want, got, desc())
				return
			}
			if got, want := s0.disc["NumMutationsUniquePerSequence(fromfile)"], fmt.Sprint(umuts, zeros, zeros, nil); got != want {
				o.Fail("definition:NumMutationsUniquePerSequence", "with the alignment's own profile read from a file: %s by definition, %s reported\n%s", want, got, desc())
				return
			}
		}
		if got, want := s0.disc["NumGapsUniquePerSequence(nil)"], fmt.Sprint(ugaps, zeros, zeros, nil); got != want {
			o.Fail("definition:NumGapsUniquePerSequence", "gaps that are alone in their column, per row: %s by definition, %s reported (uniques, new, both, error)\n%s", want, got, desc())
			return
		}
		if got, want := s0.disc["NumGapsUniquePerSequence"], fmt.Sprint(ugaps, zeros, zeros, nil); got != want {
			o.Fail("definition:NumGapsUniquePerSequence", "with the alignment's own profile: %s by definition, %s reported\n%s", want, got, desc())
			return
		}
		if got, want := s0.disc["NumMutationsUniquePerSequence"], fmt.Sprint(umuts, zeros, zeros, nil); got != want {
			o.Fail("definition:NumMutationsUniquePerSequence", "residues that are alone in their column (N/X and gaps left out), per row, with the alignment's own profile: %s by definition, %s reported\n%s", want, got, desc())
			return
		}
		if len(c.Prof) > 0 && len(c.Prof[0]) == L {
			// against the profile of another alignment: "new" = not seen in the profile at that site
			inProf := func(ch byte, site int) bool {
				for _, row := range c.Prof {
					if row[site] == ch {
						return true
					}
				}
				return false
			}
			gnew, gboth, mnew, mboth := make([]int, n), make([]int, n), make([]int, n), make([]int, n)
			for site := 0; site < L; site++ {
				cnt := map[byte]int{}
				for i := 0; i < n; i++ {
					cnt[a.Seqs[i][site]]++
				}
				for i := 0; i < n; i++ {
					ch := a.Seqs[i][site]
					isNew := !inProf(ch, site)
					if ch == '-' {
						if isNew {
							gnew[i]++
							if cnt[ch] == 1 {
								gboth[i]++
							}
						}
					} else if ch != allc && isNew {
						mnew[i]++
						if cnt[ch] == 1 {
							mboth[i]++
						}
					}
				}
			}
			if got, want := s0.disc["NumGapsUniquePerSequence(other)"], fmt.Sprint(ugaps, gnew, gboth, nil); got != want {
				o.Fail("definition:NumGapsUniquePerSequence", "against the profile of another alignment %q: (unique, new, both) = %s by definition, %s reported\n%s", c.Prof, want, got, desc())
				return
			}
			if got, want := s0.disc["NumMutationsUniquePerSequence(other)"], fmt.Sprint(umuts, mnew, mboth, nil); got != want {
				o.Fail("definition:NumMutationsUniquePerSequence", "against the profile of another alignment %q: (unique, new, both) = %s by definition, %s reported\n%s", c.Prof, want, got, desc())
				return
			}
			o.Add("profile_of_another_alignment_checked", 1)
		}
		avg := func(al, st int) float64 { return float64(al) / float64(st) }
		gotAvg := s0.floats["AvgAllelesPerSite"][0]
		okAvg := false
		for _, w := range []float64{avg(allelesA, sitesA), avg(allelesB, sitesB), avg(allelesA, sitesB), avg(allelesB, sitesA)} {
			if (math.IsNaN(w) && math.IsNaN(gotAvg)) || math.Abs(w-gotAvg) < 1e-12 {
				okAvg = true
			}
		}
		if !okAvg {
			o.Fail("definition:AvgAllelesPerSite", "average number of alleles per site: %v reported, %v by definition (%v when N/X are not alleles)\n%s", gotAvg, avg(allelesA, sitesA), avg(allelesB, sitesB), desc())
			return
		}
		if n >= 2 {
			allSet := map[string]bool{}
			var per []string
			for i := 1; i < n; i++ {
				m := map[string]int{}
				for site := 0; site < L; site++ {
					if a.Seqs[0][site] != a.Seqs[i][site] {
						k := string([]byte{a.Seqs[0][site], a.Seqs[i][site]})
						m[k]++
						allSet[k] = true
					}
				}
				ks := make([]string, 0, len(m))
				for k := range m {
					ks = append(ks, k)
				}
				sort.Strings(ks)
				x := ""
				for _, k := range ks {
					x += fmt.Sprintf("%s=%d,", k, m[k])
				}
				per = append(per, x)
			}
			var all []string
			for k := range allSet {
				all = append(all, k)
			}
			sort.Strings(all)
			if got := s0.disc["CountDifferences.all.sorted"]; got != fmt.Sprint(all) {
				o.Fail("definition:CountDifferences", "differences to the first row: %v by definition, %s reported\n%s", all, got, desc())
				return
			}
			if got := s0.disc["CountDifferences.perseq"]; got != strings.Join(per, "|") {
				o.Fail("definition:CountDifferences", "differences to the first row per sequence: %s by definition, %s reported\n%s", strings.Join(per, "|"), got, desc())
				return
			}
		}
		o.Add("extra_definitions_checked", 1)
	}
	if !hasLower && !hasSpecial && c.Ref >= 0 && c.Ref < n {
		// substitutions / insertions / deletions against the reference row, from the
		// documented meaning: insertions = runs of residues facing gaps of the reference,
		// N/X and IUPAC-compatible residues are never substitutions
		mask := func(b byte) int {
			switch b {
			case 'A':
				return 1
			case 'C':
				return 2
			case 'G':
				return 4
			case 'T':
				return 8
			case 'R':
				return 1 | 4
			case 'Y':
				return 2 | 8
			case 'K':
				return 4 | 8
			case 'M':
				return 1 | 2
			case 'N':
				return 15
			}
			return 0
		}
		nt := al.Alphabet() == align.NUCLEOTIDS
		ref := a.Seqs[c.Ref]
		var wantN, wantL []string
		for i := 0; i < n; i++ {
			q := a.Seqs[i]
			cnt, refi := 0, 0
			var lst, ins string
			for k := 0; k < L; k++ {
				eq := q[k] == ref[k]
				if nt && !eq {
					eq = mask(q[k])&mask(ref[k]) > 0
				}
				if q[k] != '-' && q[k] != allc && !eq {
					cnt++
				}
				if ref[k] == '-' {
					if q[k] != '-' {
						ins += string(q[k])
					}
					continue
				}
				if ins != "" {
					lst += fmt.Sprintf("-%d%s,", refi, ins)
					ins = ""
				}
				if q[k] != allc && !eq {
					lst += fmt.Sprintf("%c%d%c,", ref[k], refi, q[k])
				}
				refi++
			}
			if ins != "" {
				lst += fmt.Sprintf("-%d%s,", refi, ins)
			}
			wantN = append(wantN, fmt.Sprintf("%d <nil>", cnt))
			wantL = append(wantL, lst+"<nil>")
		}
		if got := s0.disc["NumMutationsComparedToReferenceSequence"]; got != strings.Join(wantN, "|") {
			o.Fail("definition:NumMutationsComparedToReferenceSequence", "against reference row %d: %s reported, %s by definition\n%s", c.Ref, got, strings.Join(wantN, "|"), desc())
			return
		}
		if got := s0.disc["ListMutationsComparedToReferenceSequence"]; got != strings.Join(wantL, "|") {
			o.Fail("definition:ListMutationsComparedToReferenceSequence", "against reference row %d: %s reported, %s by definition\n%s", c.Ref, got, strings.Join(wantL, "|"), desc())
			return
		}
		o.Add("mutation_lists_checked", int64(n))
	}
	// whatever the residues are (lower case, '*', '.', X included): a sequence compared with itself has no mutation
	if c.Ref >= 0 && c.Ref < n {
		if parts := strings.Split(s0.disc["NumMutationsComparedToReferenceSequence"], "|"); len(parts) == n {
			o.Add("reference_against_itself_checked", 1)
			if parts[c.Ref] != "0 <nil>" && strings.HasSuffix(parts[c.Ref], "<nil>") {
				o.Fail("definition:NumMutationsComparedToReferenceSequence", "the reference row %d compared with itself: %s mutations reported\n%s", c.Ref, parts[c.Ref], desc())
				return
			}
		}
		if parts := strings.Split(s0.disc["ListMutationsComparedToReferenceSequence"], "|"); len(parts) == n {
			if parts[c.Ref] != "<nil>" && strings.HasSuffix(parts[c.Ref], "<nil>") {
				o.Fail("definition:ListMutationsComparedToReferenceSequence", "the reference row %d compared with itself: mutations %s listed\n%s", c.Ref, parts[c.Ref], desc())
				return
			}
		}
	}
	for _, kind := range []string{"all-short", "all-long", "one-row-short"} {
		if got, ok := s0.disc["profile-not-covering("+kind+")"]; ok {
			o.Add("profiles_not_covering_the_alignment", 1)
			if got != "true true" {
				o.Fail("definition:profile-does-not-cover-alignment", "a count profile that is %s for an alignment of %d sites: NumGapsUniquePerSequence / NumMutationsUniquePerSequence report an error = %s (both must: there is no count to compare with at the last site)\n%s", kind, L, got, desc())
				return
			}
		}
	}
	// codon-by-codon list: where neither the reference nor the row holds a gap the definition leaves no choice -
	// codon k of the row against codon k of the reference, an entry when the amino acids differ (goalign's own
	// Sequence.Translate is the reference for codon -> amino acid: C05 is not claimed)
	if al.Alphabet() == align.NUCLEOTIDS && c.Ref >= 0 && c.Ref < n {
		got := strings.Split(s0.disc["ListMutationsComparedToReferenceSequence.aa"], "|")
		ref := a.Seqs[c.Ref]
		tr := func(q string) (string, bool) {
			if len(q) < 3 {
				return "", true
			}
			t, err := align.NewSequence("x", []uint8(q), "").Translate(0, 0)
			if err != nil {
				return "", false
			}
			return t.Sequence(), true
		}
		// codon-aligned pairs (every gap a whole codon, in the reference and in the row): per codon, an insertion
		// ("-", position of the reference codon before it), a deletion, or a substitution of the amino acid
		codonAligned := func(q string) bool {
			if len(q)%3 != 0 || strings.ToUpper(q) != q {
				return false
			}
			for k := 0; k+3 <= len(q); k += 3 {
				if g := strings.Count(q[k:k+3], "-"); g != 0 && g != 3 {
					return false
				}
				if strings.ContainsAny(q[k:k+3], "*.") {
					return false
				}
			}
			return true
		}
		if codonAligned(ref) && strings.Contains(ref+strings.Join(a.Seqs, ""), "-") && len(got) == n {
			aaOf := func(cod string) (byte, bool) {
				t, err := align.NewSequence("x", []uint8(cod), "").Translate(0, 0)
				if err != nil || t.Length() != 1 {
					return 0, false
				}
				return t.SequenceChar()[0], true
			}
			for i := 0; i < n; i++ {
				q := a.Seqs[i]
				if !codonAligned(q) || len(q) != len(ref) {
					continue
				}
				want, refi, ok := "", 0, true
				for k := 0; k+3 <= len(ref) && ok; k += 3 {
					rc, qc := ref[k:k+3], q[k:k+3]
					switch {
					case rc == "---" && qc == "---":
					case rc == "---":
						var x byte
						if x, ok = aaOf(qc); ok {
							want += fmt.Sprintf("-%d%c,", refi-1, x)
						}
					default:
						ra, ok1 := aaOf(rc)
						if ok = ok1; !ok {
							break
						}
						if qc == "---" {
							want += fmt.Sprintf("%c%d-,", ra, refi)
						} else if x, ok2 := aaOf(qc); !ok2 {
							ok = false
						} else if x != ra {
							want += fmt.Sprintf("%c%d%c,", ra, refi, x)
						}
						refi++
					}
				}
				if !ok {
					continue
				}
				want += "<nil>"
				o.Add("codon_aligned_mutation_lists_checked", 1)
				if got[i] != want {
					o.Fail("definition:ListMutationsComparedToReferenceSequence.aa", "row %d against reference row %d, codon by codon, every gap a whole codon: %s reported, %s by definition\n%s", i, c.Ref, got[i], want, desc())
					return
				}
			}
		}
		if raa, ok := tr(ref); ok && !strings.Contains(ref, "-") && len(got) == n {
			for i := 0; i < n; i++ {
				q := a.Seqs[i]
				qaa, ok := tr(q)
				if !ok || strings.Contains(q, "-") {
					continue
				}
				want := ""
				for k := 0; k < len(raa) && k < len(qaa); k++ {
					if raa[k] != qaa[k] {
						want += fmt.Sprintf("%c%d%c,", raa[k], k, qaa[k])
					}
				}
				want += "<nil>"
				o.Add("codon_mutation_lists_checked", 1)
				if got[i] != want {
					o.Fail("definition:ListMutationsComparedToReferenceSequence.aa", "row %d against reference row %d, codon by codon, neither holds a gap: %s reported, %s by definition\n%s", i, c.Ref, got[i], want, desc())
					return
				}
			}
		}
	}
	if o.Nontrivial {
		o.Sample = map[string]interface{}{"alignment": a.Seqs, "alphabet": al.Alphabet(), "map_seeds": c.MapSeeds, "consensus": s0.consensus[0]}
	}
	return
}

func (c14) Shrink(ci interface{}) []interface{} {
	c := ci.(*C14Case)
	var out []interface{}
	add := func(f func(n *C14Case) bool) {
		n := cloneCase(c14{}, c).(*C14Case)
		if f(n) {
			out = append(out, n)
		}
	}
	a := c.Aln
	if len(a.Names) > 1 {
		for i := range a.Names {
			i := i
			add(func(n *C14Case) bool {
				n.Aln.Names = append(n.Aln.Names[:i:i], n.Aln.Names[i+1:]...)
				n.Aln.Seqs = append(n.Aln.Seqs[:i:i], n.Aln.Seqs[i+1:]...)
				if n.Ref >= len(n.Aln.Names) {
					n.Ref = 0
				}
				return true
			})
		}
	}
	if l := len(a.Seqs[0]); l > 1 {
		for k := 0; k < l; k++ {
			k := k
			add(func(n *C14Case) bool {
				for i := range n.Aln.Seqs {
					n.Aln.Seqs[i] = n.Aln.Seqs[i][:k] + n.Aln.Seqs[i][k+1:]
				}
				for i := range n.Prof {
					if len(n.Prof[i]) > k {
						n.Prof[i] = n.Prof[i][:k] + n.Prof[i][k+1:]
					}
				}
				return true
			})
		}
	}
	for i, s := range a.Seqs {
		if s != strings.ToUpper(s) {
			i := i
			add(func(n *C14Case) bool { n.Aln.Seqs[i] = strings.ToUpper(n.Aln.Seqs[i]); return true })
		}
	}
	return out
}

// runCLI executes some of the statistics commands through the command tree in this process and holds what they
// print to the values the library calls return for the same alignment (which the rest of the run holds to their
// definitions), in the layout the commands document.
func (c *C14Case) runCLI(ctx *Ctx, o *Outcome, al align.Alignment) {
	type job struct {
		args string
		want func() (string, bool)
	}
	inputs := map[string][]string{} // command line -> the rows of its input, when they are not those of the case
	b2 := func(k int) (bool, bool) { return k&1 != 0, k&2 != 0 }
	flags := func(ig, in bool) string {
		s := ""
		if ig {
			s += " --ignore-gaps"
		}
		if in {
			s += " --ignore-n"
		}
		return s
	}
	refName := c.Aln.Names[min(max(c.Ref, 0), len(c.Aln.Names)-1)]
	refSeq, _ := al.GetSequence(refName)
	var jobs []job
	for k := 0; k < 4; k++ {
		ig, in := b2(k)
		jobs = append(jobs, job{"stats maxchar" + flags(ig, in), func() (string, bool) {
			ch, occ, _ := al.MaxCharStats(ig, in)
			var sb strings.Builder
			sb.WriteString("site\tchar\tnb\n")
			for i := range ch {
				fmt.Fprintf(&sb, "%d\t%c\t%d\n", i, ch[i], occ[i])
			}
			return sb.String(), true
		}})
		jobs = append(jobs, job{"consensus" + flags(ig, in), func() (string, bool) {
			return fasta.WriteAlignment(al.Consensus(ig, in)), true
		}})
	}
	for _, rg := range []bool{false, true} {
		a := "compute entropy"
		if rg {
			a += " --remove-gaps"
		}
		jobs = append(jobs, job{a, func() (string, bool) {
			var sb strings.Builder
			sb.WriteString("Alignment\tSite\tEntropy\n")
			for i := 0; i < al.Length(); i++ {
				e, err := al.Entropy(i, rg)
				if err != nil {
					return "", false
				}
				fmt.Fprintf(&sb, "0\t%d\t%.3f\n", i, e)
			}
			return sb.String(), true
		}})
	}
	perSeq := func(f func(i int, q align.Sequence) int) func() (string, bool) {
		return func() (string, bool) {
			var sb strings.Builder
			for i, q := range al.Sequences() {
				fmt.Fprintf(&sb, "%s\t%d\n", q.Name(), f(i, q))
			}
			return sb.String(), true
		}
	}
	jobs = append(jobs,
		job{"stats gaps", perSeq(func(_ int, q align.Sequence) int { return q.NumGaps() })},
		job{"stats gaps --from-start", perSeq(func(_ int, q align.Sequence) int { return q.NumGapsFromStart() })},
		job{"stats gaps --from-end", perSeq(func(_ int, q align.Sequence) int { return q.NumGapsFromEnd() })},
		job{"stats gaps --openning", perSeq(func(_ int, q align.Sequence) int { return q.NumGapsOpenning() })},
		job{"stats gaps --unique", func() (string, bool) {
			u, _, _, err := al.NumGapsUniquePerSequence(nil)
			if err != nil {
				return "", false
			}
			return perSeq(func(i int, _ align.Sequence) int { return u[i] })()
		}},
		job{"stats mutations --unique", func() (string, bool) {
			u, _, _, err := al.NumMutationsUniquePerSequence(nil)
			if err != nil {
				return "", false
			}
			return perSeq(func(i int, _ align.Sequence) int { return u[i] })()
		}},
		job{"stats mutations --ref-sequence " + refName, func() (string, bool) {
			var sb strings.Builder
			for _, q := range al.Sequences() {
				k, err := q.NumMutationsComparedToReferenceSequence(al.Alphabet(), align.NewSequence("ref", []uint8(refSeq), ""))
				if err != nil {
					return "", false
				}
				fmt.Fprintf(&sb, "%s\t%d\n", q.Name(), k)
			}
			return sb.String(), true
		}},
		job{"stats mutations list --ref-sequence " + refName, func() (string, bool) {
			var sb strings.Builder
			for _, q := range al.Sequences() {
				if q.Name() == refName {
					continue
				}
				ms, err := q.ListMutationsComparedToReferenceSequence(al.Alphabet(), align.NewSequence("ref", []uint8(refSeq), ""), false)
				if err != nil {
					return "", false
				}
				sb.WriteString(q.Name())
				for i, m := range ms {
					sep := ","
					if i == 0 {
						sep = "\t"
					}
					fmt.Fprintf(&sb, "%s%c%d%s", sep, m.Ref, m.Pos, string(m.Alt))
				}
				sb.WriteString("\n")
			}
			return sb.String(), true
		}},
		job{"stats alleles", func() (string, bool) { return fmt.Sprintln(al.AvgAllelesPerSite()), true }},
	)
	for norm := 0; norm <= 4; norm++ {
		for _, lg := range []bool{false, true} {
			pc := []float64{0, 0.5, 1}[(norm+len(c.Aln.Names))%3]
			a := fmt.Sprintf("compute pssm -n %d -c %v", norm, pc)
			if lg {
				a += " --log"
			}
			jobs = append(jobs, job{a, func() (string, bool) {
				m, err := al.Pssm(lg, pc, norm)
				if err != nil {
					return "", false
				}
				var sb strings.Builder
				for _, ch := range al.AlphabetCharacters() {
					if _, ok := m[ch]; !ok {
						return "", false
					}
					fmt.Fprintf(&sb, "\t%c", ch)
				}
				sb.WriteString("\n")
				for i := 0; i < al.Length(); i++ {
					fmt.Fprintf(&sb, "%d", i+1)
					for _, ch := range al.AlphabetCharacters() {
						fmt.Fprintf(&sb, "\t%.3f", m[ch][i])
					}
					sb.WriteString("\n")
				}
				return sb.String(), true
			}})
		}
	}
	for _, nogaps := range []bool{false, true} {
		a := "diff --counts"
		if nogaps {
			a += " --no-gaps"
		}
		jobs = append(jobs, job{a, func() (string, bool) {
			all, per := al.CountDifferences()
			all = append([]string{}, all...)
			sort.Strings(all)
			var sb strings.Builder
			for _, d := range all {
				if !(nogaps && strings.Contains(d, "-")) {
					sb.WriteString("\t" + d)
				}
			}
			sb.WriteString("\n")
			for i := range per {
				nm, _ := al.GetSequenceNameById(i + 1)
				sb.WriteString(nm)
				for _, d := range all {
					if !(nogaps && strings.Contains(d, "-")) {
						fmt.Fprintf(&sb, "\t%d", per[i][d])
					}
				}
				sb.WriteString("\n")
			}
			return sb.String(), true
		}})
	}
	// the summary, the per-sequence table (with and without a reference row) and the average entropy
	charTable := func(sb *strings.Builder) {
		cs := al.CharStats()
		var keys []string
		var total int64
		for k, v := range cs {
			keys = append(keys, string(k))
			total += v
		}
		sort.Strings(keys)
		sb.WriteString("char\tnb\tfreq\n")
		for _, k := range keys {
			fmt.Fprintf(sb, "%s\t%d\t%f\n", k, cs[k[0]], float64(cs[k[0]])/float64(total))
		}
	}
	jobs = append(jobs, job{"stats", func() (string, bool) {
		var sb strings.Builder
		fmt.Fprintf(&sb, "length\t%d\nnseqs\t%d\navgalleles\t%.4f\nvariable sites\t%d\n", al.Length(), al.NbSequences(), al.AvgAllelesPerSite(), al.NbVariableSites())
		charTable(&sb)
		fmt.Fprintf(&sb, "alphabet\t%s\n", al.AlphabetStr())
		return sb.String(), true
	}})
	for _, withRef := range []bool{false, true} {
		a := "stats --per-sequences"
		if withRef {
			a += " --ref-sequence " + refName
		}
		jobs = append(jobs, job{a, func() (string, bool) {
			gu, _, _, e1 := al.NumGapsUniquePerSequence(nil)
			mu, _, _, e2 := al.NumMutationsUniquePerSequence(nil)
			if e1 != nil || e2 != nil {
				return "", false
			}
			uc := al.UniqueCharacters()
			var sb strings.Builder
			sb.WriteString("sequence\tgaps\tgapsstart\tgapsend\tgapsuniques\tgapsopenning\tmutuniques")
			if withRef {
				sb.WriteString("\tmutref")
			}
			sb.WriteString("\tlength")
			for _, ch := range uc {
				fmt.Fprintf(&sb, "\t%c", ch)
			}
			sb.WriteString("\n")
			for i, q := range al.Sequences() {
				m, err := al.CharStatsSeq(i)
				if err != nil {
					return "", false
				}
				fmt.Fprintf(&sb, "%s\t%d\t%d\t%d\t%d\t%d\t%d", q.Name(), q.NumGaps(), q.NumGapsFromStart(), q.NumGapsFromEnd(), gu[i], q.NumGapsOpenning(), mu[i])
				if withRef {
					k, err := q.NumMutationsComparedToReferenceSequence(al.Alphabet(), align.NewSequence("ref", []uint8(refSeq), ""))
					if err != nil {
						return "", false
					}
					fmt.Fprintf(&sb, "\t%d", k)
				}
				fmt.Fprintf(&sb, "\t%d", q.Length()-q.NumGaps())
				for _, ch := range uc {
					fmt.Fprintf(&sb, "\t%d", m[ch])
				}
				sb.WriteString("\n")
			}
			return sb.String(), true
		}})
	}
	for _, rg := range []bool{false, true} {
		a := "compute entropy --average"
		if rg {
			a += " --remove-gaps"
		}
		jobs = append(jobs, job{a, func() (string, bool) {
			sum, cnt := 0.0, 0
			for i := 0; i < al.Length(); i++ {
				e, err := al.Entropy(i, rg)
				if err != nil {
					return "", false
				}
				if !math.IsNaN(e) {
					sum += e
					cnt++
				}
			}
			return fmt.Sprintf("Alignment\tAvgEntropy\n0\t%.3f\n", sum/float64(cnt)), true
		}})
	}
	jobs = append(jobs,
		job{"stats length", func() (string, bool) { return fmt.Sprintf("%d\n", al.Length()), true }},
		job{"stats nseq", func() (string, bool) { return fmt.Sprintf("%d\n", al.NbSequences()), true }},
	)
	// the difference view relative to the first sequence and back, by their definitions; the way back starts from
	// the difference view of the alignment (rows full of '.')
	view := func(rows []string, rev bool) []string {
		out := make([]string, len(rows))
		for i := range rows {
			b := []byte(rows[i])
			for k := range b {
				f := rows[0][k]
				switch {
				case i == 0:
				case !rev && b[k] == f:
					b[k] = '.'
				case rev && b[k] == '.' && f != '.':
					b[k] = f
				}
			}
			out[i] = string(b)
		}
		return out
	}
	for _, rev := range []bool{false, true} {
		a := "diff"
		in := c.Aln.Seqs
		if rev {
			a += " --reverse"
			in = view(c.Aln.Seqs, false)
		}
		inputs[a] = in
		jobs = append(jobs, job{a, func() (string, bool) {
			x := align.NewAlign(al.Alphabet())
			for i, row := range view(in, rev) {
				if x.AddSequence(c.Aln.Names[i], row, "") != nil {
					return "", false
				}
			}
			return fasta.WriteAlignment(x), true
		}})
	}
	// character counts: of the alignment, per site, per sequence; all characters or one (present or not)
	onlyCands := []string{"*", "*", "A", "-", "N", "G", "Q", "X", "L"}
	for _, mode := range []string{"", " --per-sites", " --per-sequences"} {
		for _, only := range onlyCands {
			a := "stats char" + mode
			if only != "*" {
				a += " --only " + only
			}
			jobs = append(jobs, job{a, func() (string, bool) {
				cs := al.CharStats()
				var keys []string
				var total int64
				for k, v := range cs {
					keys = append(keys, string(k))
					total += v
				}
				if _, ok := cs[only[0]]; !ok && only != "*" {
					keys = append(keys, only)
				}
				sort.Strings(keys)
				var sb strings.Builder
				switch mode {
				case "":
					sb.WriteString("char\tnb\tfreq\n")
					for _, k := range keys {
						if only == "*" || k == only {
							fmt.Fprintf(&sb, "%s\t%d\t%f\n", k, cs[k[0]], float64(cs[k[0]])/float64(total))
						}
					}
				case " --per-sequences":
					sb.WriteString("seq")
					for _, k := range keys {
						if only == "*" || k == only {
							sb.WriteString("\t" + k)
						}
					}
					sb.WriteString("\n")
					for i := 0; i < al.NbSequences(); i++ {
						m, err := al.CharStatsSeq(i)
						if err != nil {
							return "", false
						}
						nm, _ := al.GetSequenceNameById(i)
						sb.WriteString(nm)
						for _, k := range keys {
							if only == "*" || k == only {
								fmt.Fprintf(&sb, "\t%d", m[k[0]])
							}
						}
						sb.WriteString("\n")
					}
				default:
					// one column per character of the count profile, in its order; a character the alignment does
					// not hold has a column of zeros
					pf := align.NewCountProfileFromAlignment(al)
					var cols []int
					sb.WriteString("site")
					for i := 0; i < pf.NbCharacters(); i++ {
						r, _ := pf.NameAt(i)
						if only == "*" || r == only[0] {
							cols = append(cols, i)
							fmt.Fprintf(&sb, "\t%c", r)
						}
					}
					if len(cols) == 0 {
						sb.WriteString("\t" + only)
					}
					sb.WriteString("\n")
					for site := 0; site < al.Length(); site++ {
						fmt.Fprintf(&sb, "%d", site)
						for _, i := range cols {
							cnt, _ := pf.CountAt(i, site)
							fmt.Fprintf(&sb, "\t%d", cnt)
						}
						if len(cols) == 0 {
							sb.WriteString("\t0")
						}
						sb.WriteString("\n")
					}
				}
				return sb.String(), true
			}})
		}
	}
	pr := NewRand(Mix(c.MapSeeds[0], "cli-jobs"))
	files := map[string]string{"in.fa": fastaOf(c.Aln.Names, c.Aln.Seqs)}
	for k := 0; k < c.Cli; k++ {
		j := jobs[pr.Intn(len(jobs))]
		var want string
		ok := false
		func() {
			defer func() { recover() }() // a crash of the library call is the business of the run itself
			want, ok = j.want()
		}()
		if !ok {
			continue
		}
		args := append(strings.Fields(j.args), "-i", "in.fa")
		if rows, ok := inputs[j.args]; ok {
			files = map[string]string{"in.fa": fastaOf(c.Aln.Names, rows)}
		} else {
			files = map[string]string{"in.fa": fastaOf(c.Aln.Names, c.Aln.Seqs)}
		}
		res := runInProc(ctx, args, files, c.MapSeeds[1], 1700000000e9)
		o.Add("command_line_executions", 1)
		what := "goalign " + strings.Join(args, " ")
		for _, p := range res.sr.Panics {
			if p.Exit < 0 {
				o.Fail("crash:cli:"+j.args, "%s: goroutine g%d panicked: %s\n%s\n%s", what, p.Gid, p.Panic, c.Aln.String(), p.Stack)
				return
			}
		}
		if res.sr.Deadlock || res.sr.Budget {
			o.Fail("hang:cli:"+j.args, "%s does not return: %s", what, res.sr.Stacks)
			return
		}
		if res.err != nil || res.exit >= 0 {
			o.Fail("cli-differs:error:"+funcOfKey(j.args), "%s fails (%v, exit %d); the library calls it is made of succeed\nalignment:\n%s", what, res.err, res.exit, c.Aln.String())
			return
		}
		if got := string(res.files["stdout.txt"]); got != want {
			o.Fail("cli-differs:"+strings.Join(strings.Fields(j.args)[:2], "-"), "%s prints\n%s\nthe library calls it documents give\n%s\nalignment:\n%s", what, clip(got, 600), clip(want, 600), c.Aln.String())
			return
		}
		o.Add("command_line_output_equals_library_values", 1)
	}
}
