package sim

import (
	"bytes"
	"compress/gzip"
	"fmt"
	"io"
	"sort"
	"strconv"
	"strings"

	"github.com/ulikunitz/xz"

	"github.com/evolbioinfo/goalign/align"
	"github.com/evolbioinfo/goalign/verifrt"
)

// C16 — Phasing gives one correctly framed result per sequence for any
// thread count. System under simulation: the real phaser.Phase, the real
// SequencesChan producer goroutine, the real worker pool and closer
// goroutine, the real aligner and translation. The harness is the consumer
// of the result stream and is one more scheduled goroutine.

type C16Case struct {
	Seed      uint64   `json:"seed"`
	Orf       string   `json:"orf"`
	Names     []string `json:"names"`
	Seqs      []string `json:"seqs"`
	Verbatim  []int    `json:"verbatim"` // index -> start of the verbatim ORF copy, -1 if mutated / reverse
	GiveRef   bool     `json:"give_ref"`
	Translate bool     `json:"translate"`
	Reverse   bool     `json:"reverse"`
	CutEnd    bool     `json:"cutend"`
	Code      int      `json:"code"`
	Cpus      int      `json:"cpus"`
	Policy    int      `json:"policy"`
	BadAt     int      `json:"bad_at"` // position of a 2-nt sequence that makes Translate fail (-1 = none)
	LenCut    *float64 `json:"len_cutoff,omitempty"`   // nil = the phaser's default
	MatchCut  *float64 `json:"match_cutoff,omitempty"` // nil = the phaser's default
	Scores    bool     `json:"scores,omitempty"`       // explicit match / mismatch / gap scores instead of the substitution matrix
	ExtraRefs []string `json:"extra_refs,omitempty"`   // further reference ORFs given with the ORF
	RefAt     int      `json:"ref_at,omitempty"`       // rank of the ORF among the references
	RunFirst  bool     `json:"run_first,omitempty"`    // the run under test comes first, before the one-worker reference and the ORF search of the harness
	RefsAlike bool     `json:"refs_alike,omitempty"`   // the further references are variants of the ORF (no claim about which one a sequence matches best)
	Cli       string   `json:"cli,omitempty"`          // "", or the extension of the output files of a command-line execution with the same options ("plain", ".gz", ".xz")
	CliOuts   int      `json:"cli_outs,omitempty"`     // which of the optional outputs the command line is asked for: 1 protein, 2 codons (phasent), 4 log
	Choices   []int    `json:"choices"`
}

type c16 struct{}

func init() { Register(c16{}) }

func (c16) ID() string       { return "C16" }
func (c16) New() interface{} { return &C16Case{} }
func (c16) Rule() string {
	return "each run: one ORF (ATG, 10-40 codons of >= 8 amino acids, stop) and 1-70 sequences = random flank + copy of the ORF (substitutions 0-15%, occasional 3-nt indels, some reverse-complemented, at least one verbatim) + random flank; reference given (in 4 cases of 10 with 1-3 further reference ORFs, the ORF at a random rank) or searched, translate/reverse/cut-end on or off, 3 genetic codes, 1-32 workers; every synchronisation operation of Phase's goroutines and every take of the consumer is a seeded scheduling choice; a quarter of the runs contain a 2-nt sequence that makes translation fail inside a worker. Distinct = distinct hash of the released (goroutine, site) sequence; non-trivial = at least 2 workers and at least 3 sequences. One run in five that ends without an error is followed by `goalign phase` / `phasent` executed through the command tree in the same process with the options of the case, a random subset of the optional outputs and plain / .gz / .xz files: the files must hold the rows the library call kept, in the order of the input."
}

var c16Codons = []string{"GAA", "TTC", "ATC", "CTG", "CCG", "CAG", "GCT", "AAA", "GGT", "CAT", "CGT", "TCT", "ACC", "GTT", "TGG", "TAC", "GAT", "AAC"}

func revcompStr(s string) string {
	b := make([]byte, len(s))
	for i := range b {
		b[i] = comp(s[len(s)-1-i])
	}
	return string(b)
}

func randNt(r *Rand, n int) string {
	b := make([]byte, n)
	for i := range b {
		b[i] = ntCore[r.Intn(4)]
	}
	return string(b)
}

func (c16) Gen(rs uint64, tier string, race bool) interface{} {
	r := NewRand(rs)
	c := &C16Case{Seed: r.U64(), BadAt: -1}
	var sb strings.Builder
	sb.WriteString("ATG")
	for _, k := range r.Perm(8) {
		sb.WriteString(c16Codons[k])
	}
	for n := r.Range(1, 30); n > 0; n-- {
		sb.WriteString(c16Codons[r.Intn(len(c16Codons))])
	}
	sb.WriteString("TAA")
	c.Orf = sb.String()
	c.GiveRef = r.Chance(0.6)
	c.Translate = r.Chance(0.6)
	c.Reverse = r.Chance(0.4)
	c.CutEnd = r.Chance(0.4)
	c.Code = r.Intn(3)
	c.Cpus = r.Pick(1, 2, 2, 3, 3, 4, 4, 8, 16, 32)
	c.Policy = r.Pick(PolUniform, PolUniform, PolSticky, PolPCT, PolPCT, PolStarve)
	if r.Chance(0.3) {
		v := r.PickS0(-1, 0.5, 0.9)
		c.LenCut = &v
	}
	if r.Chance(0.3) {
		v := r.PickS0(-1, 0.3, 0.8)
		c.MatchCut = &v
	}
	c.Scores = r.Chance(0.15)
	if r.Chance(0.2) {
		c.Cli = r.PickS("plain", "plain", ".gz", ".gz", ".xz")
		c.CliOuts = r.Pick(7, 7, 1, 2, 3, 4, 5, 6, 0)
	}
	if c.GiveRef && r.Chance(0.4) {
		// "reference ORFs": further references beside the ORF. Either short unrelated ones (at most a third of the
		// ORF's length: whatever the scores, none can beat the ORF's exact copy) or variants of the ORF.
		c.RefsAlike = r.Chance(0.3)
		ncod := (len(c.Orf) - 6) / 3
		for n := r.Range(1, 3); n > 0; n-- {
			var e strings.Builder
			e.WriteString("ATG")
			if c.RefsAlike {
				b := []byte(c.Orf[3 : len(c.Orf)-3])
				for k := range b {
					if r.Chance(0.1) {
						b[k] = ntCore[r.Intn(4)]
					}
				}
				e.Write(b)
			} else {
				// (the first codon is one of E F I L P Q: a protein spelt with nucleotide-code letters only - M S N ... -
				// is taken for DNA by the pairwise aligner, which then refuses '*': an alignment error, outside the statement)
				for k, first := r.Range(1, max(1, ncod/3-1)), true; k > 0; k-- {
					if first {
						e.WriteString(c16Codons[r.Intn(6)])
						first = false
						continue
					}
					e.WriteString(c16Codons[r.Intn(len(c16Codons))])
				}
			}
			e.WriteString("TAA")
			c.ExtraRefs = append(c.ExtraRefs, e.String())
		}
		c.RefAt = r.Intn(len(c.ExtraRefs) + 1)
	}
	ns := r.Range(1, 12)
	if r.Chance(0.12) {
		ns = r.Range(52, 70) // more than both 50-slot channels hold
		c.Policy = r.Pick(PolStarve, PolPCT, PolSticky)
	}
	if race && ns > 24 {
		ns = 24
	}
	rate := []float64{0, 0.02, 0.05, 0.15}[r.Intn(4)]
	lowerFlanks := r.Chance(0.12)
	verb := r.Intn(ns)
	softStart := -1
	if lowerFlanks && r.Chance(0.5) {
		softStart = r.Intn(ns)
	}
	for i := 0; i < ns; i++ {
		left := randNt(r, r.Intn(16))
		right := randNt(r, r.Intn(16))
		if lowerFlanks {
			// soft-masked flanks: the ORF itself stays as it is
			left, right = strings.ToLower(left), strings.ToLower(right)
			if i == softStart {
				// ... and in one sequence a start codon in the soft-masked flank, in frame with the ORF: the longest
				// open reading frame of the set begins in lower case
				left += "atg"
				for k := r.Intn(4); k > 0; k-- {
					left += strings.ToLower(c16Codons[r.Intn(len(c16Codons))])
				}
			}
		}
		b := []byte(c.Orf)
		vstart := len(left)
		if i != verb {
			mutated := false
			for k := 3; k < len(b)-3; k++ {
				if r.Chance(rate) {
					nb := ntCore[r.Intn(4)]
					if nb != b[k] {
						mutated = true
					}
					b[k] = nb
				}
			}
			if r.Chance(0.15) && len(b) > 12 {
				// 3-nt deletion or insertion, in frame
				p := 3 + 3*r.Intn((len(b)-9)/3)
				if r.Bool() {
					b = append(b[:p], b[p+3:]...)
				} else {
					b = append(b[:p], append([]byte(c16Codons[r.Intn(len(c16Codons))]), b[p:]...)...)
				}
				mutated = true
			}
			if mutated {
				vstart = -1
			}
		}
		s := left + string(b) + right
		if c.Reverse && i != verb && r.Chance(0.4) {
			s = revcompStr(s)
			vstart = -1
		}
		if c.Reverse && i != verb && r.Chance(0.15) && len(c.Orf) > 40 {
			// a decoy: a 5'-truncated piece of the ORF at the very start of the forward strand
			// (a weaker candidate whose alignment begins with gaps), the whole ORF on the reverse strand
			k := r.Pick(4, 5, 7, 8, 10, 11)
			s = c.Orf[k:k+18+r.Intn(12)] + randNt(r, 3+r.Intn(10)) + revcompStr(c.Orf) + randNt(r, r.Intn(10))
			vstart = -1
		}
		// "contains the reference ORF verbatim once"
		if vstart >= 0 && strings.Count(s, c.Orf) != 1 {
			vstart = -1
		}
		c.Names = append(c.Names, fmt.Sprintf("q%d", i))
		c.Seqs = append(c.Seqs, s)
		c.Verbatim = append(c.Verbatim, vstart)
	}
	c.RunFirst = r.Bool()
	if r.Chance(0.25) && !lowerFlanks { // (the 2-nt sequence must still find a residue of the reference to match: upper case only)
		c.BadAt = r.Intn(ns + 1)
		switch r.Intn(4) {
		case 0:
			c.BadAt = 0
		case 1:
			c.BadAt = ns
		}
		if ns > 50 && r.Chance(0.6) {
			c.BadAt = 50 + r.Intn(ns-49) // behind what the result channel holds: its error meets a full buffer if the consumer is slow
		}
	}
	return c
}

type phRes struct {
	Name, Nt, Codon, Aa string
	Pos                 int
	Removed             bool
	Err                 string
}

func (p phRes) key() string {
	return fmt.Sprintf("%s|%d|%v|%s|%s|%s|%s", p.Name, p.Pos, p.Removed, p.Nt, p.Codon, p.Aa, p.Err)
}

type phaseRun struct {
	sr       SchedResult
	callErr  error
	results  []phRes
	closed   bool
	inputsOK bool
}

func (c *C16Case) bags() (orfs, seqs align.SeqBag, names []string, all []string) {
	seqs = align.NewSeqBag(align.NUCLEOTIDS)
	names = append([]string{}, c.Names...)
	all = append([]string{}, c.Seqs...)
	if c.BadAt >= 0 {
		at := c.BadAt
		if at > len(all) {
			at = len(all)
		}
		names = append(names[:at], append([]string{"bad"}, names[at:]...)...)
		all = append(all[:at], append([]string{"AC"}, all[at:]...)...)
	}
	for i := range all {
		seqs.AddSequence(names[i], all[i], "")
	}
	if c.GiveRef {
		orfs = align.NewSeqBag(align.NUCLEOTIDS)
		at := min(max(c.RefAt, 0), len(c.ExtraRefs))
		for i, e := range c.ExtraRefs[:at] {
			orfs.AddSequence(fmt.Sprintf("ref%d", i), e, "")
		}
		orfs.AddSequence("orf", c.Orf, "")
		for i, e := range c.ExtraRefs[at:] {
			orfs.AddSequence(fmt.Sprintf("ref%d", at+i), e, "")
		}
	}
	return
}

// refsShort: every further reference is at most a third of the ORF in length (computed here, so that it stays
// true under shrinking): an exact copy of the ORF then outscores anything a further reference can reach, with
// the substitution matrices (diagonal 4..11 for amino acids) as with explicit match scores.
func (c *C16Case) refsShort() bool {
	for _, e := range c.ExtraRefs {
		if (len(e)-3)*3 > len(c.Orf)-3 {
			return false
		}
	}
	return true
}

func seqStr(s align.Sequence) string {
	if s == nil {
		return "<nil>"
	}
	return string(s.SequenceChar())
}

func (c *C16Case) runPhase(ctx *Ctx, cpus int, cfg SchedCfg) (pr phaseRun) {
	orfs, seqs, _, _ := c.bags()
	before := snapshotAlign(seqs)
	beforeOrf := ""
	if orfs != nil {
		beforeOrf = snapshotAlign(orfs)
	}
	p := align.NewPhaser()
	p.SetCpus(cpus)
	p.SetReverse(c.Reverse)
	p.SetCutEnd(c.CutEnd)
	p.SetTranslate(c.Translate, c.Code)
	if c.LenCut != nil {
		p.SetLenCutoff(*c.LenCut)
	}
	if c.MatchCut != nil {
		p.SetMatchCutoff(*c.MatchCut)
	}
	if c.Scores {
		p.SetAlignScores(1, -1)
		p.SetGapOpen(-8)
		p.SetGapExtend(-1)
	}
	var results []phRes
	var callErr error
	closed := false
	pr.sr = RunSched(ctx.T, cfg, func() {
		var in align.SeqBag
		if orfs != nil {
			in = orfs
		}
		ch, err := p.Phase(in, seqs)
		if err != nil {
			callErr = err
			return
		}
		for {
			verifrt.Yield("consume@harness")
			r, ok := <-ch
			if !ok {
				closed = true
				return
			}
			pr := phRes{Pos: r.Position, Removed: r.Removed}
			if r.Err != nil {
				pr.Err = r.Err.Error()
			} else {
				pr.Name = r.NtSeq.Name()
				pr.Nt, pr.Codon, pr.Aa = seqStr(r.NtSeq), seqStr(r.CodonSeq), seqStr(r.AaSeq)
			}
			results = append(results, pr)
		}
	})
	if pr.sr.RootDone {
		pr.results, pr.callErr, pr.closed = results, callErr, closed
	}
	pr.inputsOK = snapshotAlign(seqs) == before && (orfs == nil || snapshotAlign(orfs) == beforeOrf)
	return
}

// longestORFLen: longest ATG ... first in-frame TAA|TGA|TAG, stop included.
func longestORFLen(s string) int {
	s = strings.ReplaceAll(strings.ToUpper(s), "U", "T")
	best := 0
	for i := 0; i+3 <= len(s); i++ {
		if s[i:i+3] != "ATG" {
			continue
		}
		for j := i + 3; j+3 <= len(s); j += 3 {
			cod := s[j : j+3]
			if cod == "TAA" || cod == "TGA" || cod == "TAG" {
				if j+3-i > best {
					best = j + 3 - i
				}
				break
			}
		}
	}
	return best
}

func (c16) RaceCounts(ci interface{}, o *Outcome) bool {
	// the statement promises schedule independence and race freedom "when no
	// error occurs"; reports on the error path are recorded, not alarmed
	// (a natural alignment error - no injected sequence - puts the run on the error path as well)
	return ci.(*C16Case).BadAt < 0 && o.Stats["alignment_error_reported"] == 0 && o.Stats["phase_call_error"] == 0
}

func (c16) Run(ctx *Ctx, ci interface{}) (o Outcome) {
	c := ci.(*C16Case)
	ns := len(c.Seqs)
	budget := 600*(ns+c.Cpus) + 30000
	faulty := c.BadAt >= 0
	o.Nontrivial = c.Cpus >= 2 && ns >= 3
	o.Add(fmt.Sprintf("cpus_%02d", c.Cpus), 1)
	o.Add("policy_"+policyNames[c.Policy%nPolicies], 1)
	if ns > 50 {
		o.Add("probe_more_sequences_than_channel_slots", 1)
	}

	cfg := SchedCfg{Seed: c.Seed, Policy: c.Policy, Choices: c.Choices, Strict: ctx.Strict, MaxSteps: budget}
	var run phaseRun
	cliEligible, cliFaulty := false, false
	defer func() {
		if c.Cli != "" && cliEligible && o.V == nil && ctx.Diverged == "" {
			c.runCLI(ctx, &o, run.results)
		}
		if c.Cli != "" && cliFaulty && o.V == nil && ctx.Diverged == "" {
			c.runCLI(ctx, &o, nil)
		}
		if o.V == nil && ctx.Diverged == "" && !faulty && Mix(c.Seed, "smallest-reference")%12 == 0 {
			// the smallest references there are - a start codon, a start and a stop codon - alone: whatever the
			// best hit, the call returns one result per sequence (or an error) on a closed stream
			d := *c
			d.GiveRef, d.ExtraRefs, d.RefAt, d.BadAt, d.Choices = true, nil, 0, -1, nil
			switch w := Mix(c.Seed, "which") % 5; w {
			case 3, 4:
				// a soft-masked (lower-case) reference compared nucleotide by nucleotide with explicit scores: no
				// residue of it equals one of an upper-case sequence, no alignment has a positive score
				d.Orf, d.Translate, d.Scores = strings.ToLower(c.Orf), false, true
			default:
				d.Orf = []string{"ATG", "ATGTAA", "ATGGCTTAA"}[w]
			}
			pr := d.runPhase(ctx, 1+int(Mix(c.Seed, "cpus")%3), SchedCfg{Seed: 1, Policy: PolFIFO, MaxSteps: budget})
			o.Add("smallest_reference_runs", 1)
			for _, p := range pr.sr.Panics {
				fs := goalignFuncs(p.Stack)
				top := "?"
				if len(fs) > 0 {
					top = fs[0]
				}
				o.Fail("panic:"+top, "reference %q alone: goroutine g%d panicked: %s\n%s", d.Orf, p.Gid, p.Panic, p.Stack)
				return
			}
			if pr.sr.Deadlock || pr.sr.Budget {
				o.Fail("hang:"+pr.sr.BlockedFuncs(), "reference %q alone: the result stream was never closed\n%s", d.Orf, pr.sr.Stacks)
				return
			}
			if pr.callErr != nil || firstErr(pr.results) != "" {
				// the probe itself ended on the error path (a hit too short to translate): race reports of this run
				// are outside what the statement promises, as for any run with an error
				o.Add("alignment_error_reported", 1)
			}
			if pr.callErr == nil && firstErr(pr.results) == "" {
				seen := map[string]int{}
				for _, r := range pr.results {
					seen[r.Name]++
				}
				for _, nm := range c.Names {
					if seen[nm] != 1 {
						o.Fail("lost-or-duplicate-result:Phase", "reference %q alone: sequence %s has %d results (%d results for %d sequences, no error)", d.Orf, nm, seen[nm], len(pr.results), len(c.Names))
						return
					}
				}
			}
		}
	}()
	if c.RunFirst {
		// a process that has phased nothing yet starts with several workers
		run = c.runPhase(ctx, c.Cpus, cfg)
		o.Add("run_under_test_before_reference", 1)
	}

	// input-level clause: the ORF search on sequences made of little else than start and stop codons, in all frames
	// and on both strands (no schedule in it; rides along). Derived from the case's seed: part of the replay.
	{
		pr := NewRand(Mix(c.Seed, "orf-probes"))
		bag := align.NewSeqBag(align.NUCLEOTIDS)
		best := 0
		for k := 0; k < 16; k++ {
			var sb strings.Builder
			if pr.Chance(0.5) {
				sb.WriteString(randNt(pr, pr.Intn(3))) // frame shift
			}
			for m := pr.Range(1, 9); m > 0; m-- {
				sb.WriteString(pr.PickS("ATG", "ATG", "TAA", "TAG", "TGA", "GCT", "GAA", "CAT", "TTA", "CTA", "TCA", "A", "CG"))
			}
			q := sb.String()
			want := longestORFLen(q)
			st, en := align.NewSequence("p", []uint8(q), "").LongestORF()
			got := 0
			if st >= 0 {
				got = en - st
			}
			o.Add("orf_search_probes", 1)
			if got != want || (st >= 0 && (en > len(q) || q[st:st+3] != "ATG")) {
				o.Fail("orf-search:not-longest:Sequence.LongestORF", "LongestORF of %q returns (%d,%d): %d nt, the longest ATG...first in-frame stop has %d nt", q, st, en, got, want)
				return
			}
			if k < 4 {
				bag.AddSequence(fmt.Sprintf("p%d", k), q, "")
				best = max(best, want, longestORFLen(revcompStr(q)))
			}
		}
		if orf, err := bag.LongestORF(true); (err == nil && orf.Length() != best) || (err != nil && best > 0) {
			o.Fail("orf-search:not-longest:SeqBag.LongestORF", "LongestORF(reverse) over 4 probe sequences returns %v / %v, the longest ORF on either strand has %d nt", seqStr(orf), err, best)
			return
		}
	}
	if !c.GiveRef && !faulty {
		_, seqs, _, all := c.bags()
		want := 0
		for _, s := range all {
			if l := longestORFLen(s); l > want {
				want = l
			}
			if c.Reverse {
				if l := longestORFLen(revcompStr(s)); l > want {
					want = l
				}
			}
		}
		orf, err := seqs.LongestORF(c.Reverse)
		o.Add("orf_search_checked", 1)
		switch {
		case err != nil && want > 0:
			o.Fail("orf-search:missed:SeqBag.LongestORF", "LongestORF reports %v but a sequence contains an ORF of %d nt", err, want)
			return
		case err == nil && orf.Length() < want:
			o.Fail("orf-search:not-longest:SeqBag.LongestORF", "LongestORF returned an ORF of %d nt (%s) but a sequence contains one of %d nt", orf.Length(), seqStr(orf), want)
			return
		case err == nil && orf.Length() > want:
			o.Fail("orf-search:not-an-orf:SeqBag.LongestORF", "LongestORF returned %d nt (%s), longer than any ATG...first in-frame stop (%d nt)", orf.Length(), seqStr(orf), want)
			return
		}
		if c.Cli != "" {
			// the same clause for `goalign orf`: what it writes is one sequence, a longest ORF of the input
			args := []string{"orf", "-i", "in.fa", "--reverse=" + fmt.Sprint(c.Reverse)}
			res := runInProc(ctx, args, map[string]string{"in.fa": fastaOf(c.Names, all)}, 1, 1700000000e9)
			o.Add("command_line_executions", 1)
			what := "goalign " + strings.Join(args, " ")
			for _, p := range res.sr.Panics {
				if p.Exit < 0 {
					o.Fail("panic:cli:orf", "%s: goroutine g%d panicked: %s\n%s", what, p.Gid, p.Panic, p.Stack)
					return
				}
			}
			failed := res.err != nil || res.exit >= 0
			gn, gs := parseFastaText(res.files["stdout.txt"])
			switch {
			case want == 0 && !failed && len(gs) > 0:
				o.Fail("orf-search:not-an-orf:cli:orf", "%s prints %q; no input sequence holds an ATG...in-frame stop", what, gs)
				return
			case want > 0 && failed:
				o.Fail("orf-search:missed:cli:orf", "%s fails (%v, exit %d) but a sequence contains an ORF of %d nt", what, res.err, res.exit, want)
				return
			case want > 0:
				if len(gs) != 1 || len(gn) != 1 {
					o.Fail("orf-search:cli:orf", "%s prints %d sequences, one is expected: %q", what, len(gs), gs)
					return
				}
				found := false
				for _, q := range all {
					found = found || strings.Contains(strings.ToUpper(q), strings.ToUpper(gs[0])) || (c.Reverse && strings.Contains(strings.ToUpper(revcompStr(q)), strings.ToUpper(gs[0])))
				}
				if len(gs[0]) != want || longestORFLen(gs[0]) != want || !found {
					o.Fail("orf-search:not-longest:cli:orf", "%s prints %q (%d nt; part of an input sequence: %v); the longest ATG...first in-frame stop of the input has %d nt", what, clip(gs[0], 120), len(gs[0]), found, want)
					return
				}
			}
			o.Add("command_line_orf_checked", 1)
		}
	}

	ref := c.runPhase(ctx, 1, SchedCfg{Seed: 1, Policy: PolFIFO, MaxSteps: budget})
	if !c.RunFirst {
		run = c.runPhase(ctx, c.Cpus, cfg)
	}
	if run.sr.Diverged != "" {
		ctx.Diverged = run.sr.Diverged
		return
	}
	if c.Choices == nil {
		c.Choices = run.sr.Choices
	}
	o.Sig = run.sr.Hash
	o.Add("sched_steps", int64(run.sr.Steps+ref.sr.Steps))
	if run.sr.MaxEnabled >= 3 {
		o.Add("probe_3plus_goroutines_enabled_at_once", 1)
	}
	o.Sample = map[string]interface{}{"orf_nt": len(c.Orf), "sequences": ns, "cpus": c.Cpus, "policy": policyNames[c.Policy%nPolicies],
		"translate": c.Translate, "reverse": c.Reverse, "cutend": c.CutEnd, "code": c.Code, "give_ref": c.GiveRef, "bad_at": c.BadAt,
		"steps": run.sr.Steps, "trace_head": head(run.sr.Trace, 12)}

	check := func(who string, d *phaseRun) bool {
		for _, p := range d.sr.Panics {
			fs := goalignFuncs(p.Stack)
			top := "?"
			if len(fs) > 0 {
				top = fs[0]
			}
			o.Fail("panic:"+top, "%s: goroutine g%d panicked: %s\n%s", who, p.Gid, p.Panic, p.Stack)
			return false
		}
		if d.sr.Deadlock {
			o.Fail("hang:"+d.sr.BlockedFuncs(), "%s: the result stream was never closed: every goroutine is blocked after %d steps\n%s", who, d.sr.Steps, d.sr.Stacks)
			return false
		}
		if d.sr.Budget {
			o.Fail("livelock:Phase", "%s: Phase did not finish within %d scheduler steps", who, d.sr.Steps)
			return false
		}
		if d.sr.Leaked > 0 {
			o.Add("observed_goroutines_left_blocked_after_close", 1)
		}
		if !d.inputsOK {
			o.Fail("input-modified:Phase", "%s: Phase modified its input sequences or reference ORFs", who)
			return false
		}
		if d.callErr == nil && !d.closed {
			o.Fail("not-closed:Phase", "%s: consumer stopped without seeing the channel closed", who)
			return false
		}
		return true
	}
	if !check("reference run (1 worker, FIFO)", &ref) {
		return
	}
	if !check(fmt.Sprintf("%d workers, policy %s", c.Cpus, policyNames[c.Policy%nPolicies]), &run) {
		return
	}
	if ref.callErr != nil || run.callErr != nil {
		if (ref.callErr == nil) != (run.callErr == nil) {
			o.Fail("schedule-dependent:Phase:error", "Phase() returned %v with 1 worker and %v with %d", ref.callErr, run.callErr, c.Cpus)
		}
		o.Add("phase_call_error", 1)
		return
	}
	_, _, names, all := c.bags()
	byName := map[string]string{}
	for i, n := range names {
		byName[n] = all[i]
	}
	nerr := 0
	seen := map[string]int{}
	for _, r := range run.results {
		if r.Err != "" {
			nerr++
			continue
		}
		seen[r.Name]++
		if seen[r.Name] > 1 {
			o.Fail("duplicate-result:Phase", "sequence %s was delivered %d times with %d workers", r.Name, seen[r.Name], c.Cpus)
			return
		}
		if _, ok := byName[r.Name]; !ok {
			o.Fail("unknown-result:Phase", "a result for %q which is not an input sequence", r.Name)
			return
		}
	}
	if faulty {
		o.Add("fault_bad_sequence_runs", 1)
		if nerr == 0 {
			// was the bad sequence reached at all? with one worker and FIFO it always is
			o.Fail("lost-error:Phase", "a 2-nt sequence cannot be translated but no result carries an error (%d results, %d workers)", len(run.results), c.Cpus)
			return
		}
		o.Add("fault_translate_error_delivered", 1)
		cliFaulty = true
		return
	}
	cliEligible = nerr == 0
	if nerr > 0 {
		refErr := 0
		for _, r := range ref.results {
			if r.Err != "" {
				refErr++
			}
		}
		if refErr == 0 {
			o.Fail("schedule-dependent:Phase:error", "a result carries error %q with %d workers; the 1-worker run has none", firstErr(run.results), c.Cpus)
			return
		}
		o.Add("alignment_error_reported", 1)
		return
	}
	for _, r := range ref.results {
		if r.Err != "" {
			o.Add("alignment_error_reported", 1)
			return
		}
	}
	// exactly one result per input sequence
	if len(run.results) != ns {
		o.Fail("lost-result:Phase", "%d input sequences but %d results with %d workers", ns, len(run.results), c.Cpus)
		return
	}
	// the set of results does not depend on workers / schedule
	ka, kb := []string{}, []string{}
	for _, r := range ref.results {
		ka = append(ka, r.key())
	}
	for _, r := range run.results {
		kb = append(kb, r.key())
	}
	sort.Strings(ka)
	sort.Strings(kb)
	if strings.Join(ka, "\n") != strings.Join(kb, "\n") {
		d := ""
		for i := range ka {
			if i >= len(kb) || ka[i] != kb[i] {
				d = fmt.Sprintf("1 worker: %s\n%d workers: %s", ka[i], c.Cpus, kb[min(i, len(kb)-1)])
				break
			}
		}
		o.Fail("schedule-dependent:Phase", "the set of results with %d workers under policy %s differs from the 1-worker run:\n%s", c.Cpus, policyNames[c.Policy%nPolicies], d)
		return
	}
	o.Add("fault_free_same_result_set", 1)
	orderSame := true
	for i := range ref.results {
		if ref.results[i].Name != run.results[i].Name {
			orderSame = false
		}
	}
	if !orderSame {
		o.Add("observed_result_order_differs_from_1_worker", 1)
	}

	// per-result relations of the statement (input-level; ride along)
	for _, r := range run.results {
		in := byName[r.Name]
		idx := -1
		for i, n := range c.Names {
			if n == r.Name {
				idx = i
			}
		}
		cands := []string{in}
		if c.Reverse {
			cands = append(cands, revcompStr(in))
		}
		okNt := false
		for _, s := range cands {
			if r.Pos >= 0 && r.Pos <= len(s) && strings.HasPrefix(s[r.Pos:], r.Nt) && (c.CutEnd || s[r.Pos:] == r.Nt) {
				okNt = true
			}
		}
		if !okNt {
			o.Fail("framing:nt-not-substring:Phase", "%s: trimmed nucleotides %q are not the input (or its reverse complement) from position %d on; input %q", r.Name, r.Nt, r.Pos, in)
			return
		}
		off := len(r.Nt) - len(r.Codon)
		if off < 0 || off > 2 || !strings.HasSuffix(r.Nt, r.Codon) {
			o.Fail("framing:codon-not-in-frame:Phase", "%s: codon sequence %q is not the trimmed sequence %q minus 0-2 leading bases", r.Name, r.Codon, r.Nt)
			return
		}
		if len(r.Codon) >= 3 {
			aa, err := align.NewSequence("x", []uint8(r.Codon), "").Translate(0, c.Code)
			if err == nil && seqStr(aa) != r.Aa {
				o.Fail("framing:aa-mismatch:Phase", "%s: codon sequence %q translates to %q, reported amino acids %q", r.Name, r.Codon, seqStr(aa), r.Aa)
				return
			}
		}
		// a verbatim copy of the given ORF on one strand only (computed here, so that it stays true under shrinking):
		// trimmed exactly at the ORF start of that strand, codons in frame from the first base, protein = the ORF's
		if c.GiveRef && !r.Removed && len(c.Orf) >= 6 && c.refsShort() {
			fw, rv := strings.Count(in, c.Orf), 0
			rc := ""
			if c.Reverse {
				rc = revcompStr(in)
				rv = strings.Count(rc, c.Orf)
			}
			want, strand := -1, ""
			if fw == 1 && rv == 0 {
				want, strand = strings.Index(in, c.Orf), "forward"
			} else if fw == 0 && rv == 1 {
				want, strand = strings.Index(rc, c.Orf), "reverse"
			}
			if want >= 0 {
				o.Add("verbatim_"+strand+"_strand_checked", 1)
				if r.Pos != want || !strings.HasPrefix(r.Nt, c.Orf[:3]) {
					o.Fail("framing:verbatim-not-at-orf-start:Phase", "%s holds the reference ORF verbatim once, on the %s strand at %d, but was trimmed at %d (translate=%v reverse=%v cutend=%v)\ninput %q", r.Name, strand, want, r.Pos, c.Translate, c.Reverse, c.CutEnd, in)
					return
				}
				if len(r.Codon) >= 3 && r.Codon != "<nil>" && r.Codon != r.Nt {
					o.Fail("framing:verbatim-codons-out-of-frame:Phase", "%s holds the reference ORF verbatim (%s strand, position %d) and is trimmed at its ATG, but the codon sequence drops %d leading base(s): %q vs trimmed %q\ninput %q", r.Name, strand, want, len(r.Nt)-len(r.Codon), clip(r.Codon, 40), clip(r.Nt, 40), in)
					return
				}
				if orfAA, err := align.NewSequence("o", []uint8(c.Orf[:len(c.Orf)-3]), "").Translate(0, c.Code); err == nil && r.Aa != "<nil>" && len(r.Aa) > 0 {
					if !strings.HasPrefix(r.Aa, seqStr(orfAA)) {
						o.Fail("framing:verbatim-protein-mismatch:Phase", "%s holds the reference ORF verbatim (%s strand) but its protein %q does not begin with the ORF's %q\ninput %q", r.Name, strand, clip(r.Aa, 50), clip(seqStr(orfAA), 50), in)
						return
					}
				}
			}
		}
		if idx >= 0 && c.Verbatim[idx] >= 0 && c.GiveRef && !r.Removed && c.refsShort() {
			o.Add("verbatim_copy_checked", 1)
			if r.Pos != c.Verbatim[idx] || !strings.HasPrefix(r.Nt, c.Orf[:3]) {
				o.Fail("framing:verbatim-not-at-orf-start:Phase", "%s contains the reference ORF verbatim once at %d but was trimmed at %d (translate=%v reverse=%v)", r.Name, c.Verbatim[idx], r.Pos, c.Translate, c.Reverse)
				return
			}
		}
	}
	// A hit on the reverse strand must be what phasing the reverse complement alone, forward only,
	// gives: nothing of the candidates that lost (the other strand) may leak into the result.
	if c.Reverse && c.GiveRef {
		sub := cloneCase(c16{}, c).(*C16Case)
		sub.Names, sub.Seqs, sub.Verbatim = nil, nil, nil
		sub.Reverse, sub.BadAt, sub.Choices = false, -1, nil
		want := map[string]phRes{}
		for _, r := range run.results {
			in := byName[r.Name]
			onFw := r.Pos >= 0 && r.Pos <= len(in) && strings.HasPrefix(in[r.Pos:], r.Nt)
			if onFw || r.Removed {
				continue
			}
			sub.Names = append(sub.Names, r.Name)
			sub.Seqs = append(sub.Seqs, revcompStr(in))
			sub.Verbatim = append(sub.Verbatim, -1)
			want[r.Name] = r
		}
		if len(sub.Names) > 0 {
			alone := sub.runPhase(ctx, 1, SchedCfg{Seed: 1, Policy: PolFIFO, MaxSteps: budget})
			o.Add("reverse_hits_compared_with_forward_run_of_the_reverse_complement", int64(len(sub.Names)))
			if alone.sr.RootDone && alone.callErr == nil && alone.closed {
				for _, r := range alone.results {
					w, ok := want[r.Name]
					if !ok || r.Err != "" || r.Removed {
						continue
					}
					if r.Pos != w.Pos || r.Nt != w.Nt || r.Codon != w.Codon || r.Aa != w.Aa {
						o.Fail("framing:reverse-hit-differs-from-forward-run:Phase", "%s: phased with the reverse strand allowed the best hit is on the reverse strand (position %d, codons %q, protein %q); phasing its reverse complement alone, forward only, gives position %d, codons %q, protein %q\ninput %q", r.Name, w.Pos, clip(w.Codon, 40), clip(w.Aa, 30), r.Pos, clip(r.Codon, 40), clip(r.Aa, 30), byName[r.Name])
						return
					}
				}
			}
		}
	}
	return
}

func firstErr(rs []phRes) string {
	for _, r := range rs {
		if r.Err != "" {
			return r.Err
		}
	}
	return ""
}

func (c16) Shrink(ci interface{}) []interface{} {
	c := ci.(*C16Case)
	var out []interface{}
	add := func(f func(n *C16Case) bool) {
		n := cloneCase(c16{}, c).(*C16Case)
		if f(n) {
			out = append(out, n)
		}
	}
	for _, ch := range shrinkChoices(c.Choices) {
		ch := ch
		add(func(n *C16Case) bool { n.Choices = ch; return true })
	}
	for _, k := range []int{1, 2, 3, 4} {
		k := k
		if k < c.Cpus {
			add(func(n *C16Case) bool { n.Cpus = k; n.Choices = []int{}; return true })
		}
	}
	for i := range c.ExtraRefs {
		i := i
		add(func(n *C16Case) bool {
			n.ExtraRefs = append(append([]string{}, n.ExtraRefs[:i]...), n.ExtraRefs[i+1:]...)
			if n.RefAt > i {
				n.RefAt--
			}
			n.Choices = []int{}
			return true
		})
	}
	if len(c.Seqs) > 1 {
		// drop halves, then single sequences
		h := len(c.Seqs) / 2
		add(func(n *C16Case) bool {
			n.Seqs, n.Names, n.Verbatim = n.Seqs[:h], n.Names[:h], n.Verbatim[:h]
			if n.BadAt > h {
				n.BadAt = h
			}
			n.Choices = []int{}
			return true
		})
		add(func(n *C16Case) bool {
			n.Seqs, n.Names, n.Verbatim = n.Seqs[h:], n.Names[h:], n.Verbatim[h:]
			if n.BadAt >= 0 {
				n.BadAt -= h
				if n.BadAt < 0 {
					n.BadAt = 0
				}
			}
			n.Choices = []int{}
			return true
		})
		for i := len(c.Seqs) - 1; i >= 0 && len(c.Seqs) <= 16; i-- {
			i := i
			add(func(n *C16Case) bool {
				n.Seqs = append(n.Seqs[:i], n.Seqs[i+1:]...)
				n.Names = append(n.Names[:i], n.Names[i+1:]...)
				n.Verbatim = append(n.Verbatim[:i], n.Verbatim[i+1:]...)
				if n.BadAt > i {
					n.BadAt--
				}
				n.Choices = []int{}
				return true
			})
		}
	}
	if c.CutEnd {
		add(func(n *C16Case) bool { n.CutEnd = false; return true })
	}
	if c.Reverse {
		add(func(n *C16Case) bool { n.Reverse = false; return true })
	}
	if c.Code != 0 {
		add(func(n *C16Case) bool { n.Code = 0; return true })
	}
	return out
}

// runCLI executes `goalign phase` (or `phasent`) in this process with the options of the case and holds what it
// writes to the results the library call delivered: one row per sequence that was not removed, in the order of
// the input, under its name, in each output file; one log line per input sequence with the reported position.
func (c *C16Case) runCLI(ctx *Ctx, o *Outcome, results []phRes) {
	_, _, names, all := c.bags()
	files := map[string]string{"in.fa": fastaOf(names, all)}
	ext := c.Cli
	if ext == "plain" {
		ext = ""
	}
	sub := "phasent"
	if c.Translate {
		sub = "phase"
	}
	args := []string{sub, "--unaligned", "-i", "in.fa", "-o", "out.nt.fa" + ext,
		"--genetic-code", []string{"standard", "mitov", "mitoi"}[c.Code%3], "-t", fmt.Sprint(c.Cpus),
		"--reverse=" + fmt.Sprint(c.Reverse), "--cut-end=" + fmt.Sprint(c.CutEnd)}
	if c.CliOuts&1 != 0 {
		args = append(args, "--aa-output", "out.aa.fa"+ext)
	}
	if c.CliOuts&4 != 0 {
		args = append(args, "-l", "phase.log")
	}
	if !c.Translate && c.CliOuts&2 != 0 {
		args = append(args, "--nt-output", "out.codon.fa"+ext)
	}
	// the library's defaults where the case sets nothing (the command line has defaults of its own)
	lc, mc := 0.8, 0.5
	if c.LenCut != nil {
		lc = *c.LenCut
	}
	if c.MatchCut != nil {
		mc = *c.MatchCut
	}
	args = append(args, "--len-cutoff", strconv.FormatFloat(lc, 'g', -1, 64), "--match-cutoff", strconv.FormatFloat(mc, 'g', -1, 64))
	if c.Scores {
		args = append(args, "--match", "1", "--mismatch", "-1", "--gap-open", "-8", "--gap-extend", "-1")
	}
	if c.GiveRef {
		orfs, _, _, _ := c.bags()
		var rn, rs []string
		for _, q := range orfs.Sequences() {
			rn = append(rn, q.Name())
			rs = append(rs, q.Sequence())
		}
		files["ref.fa"] = fastaOf(rn, rs)
		args = append(args, "--ref-orf", "ref.fa")
	}
	res := runInProc(ctx, args, files, 1, 1700000000e9)
	o.Add("command_line_executions", 1)
	what := "goalign " + strings.Join(args, " ")
	for _, p := range res.sr.Panics {
		if p.Exit < 0 {
			o.Fail("panic:cli:"+sub, "%s: goroutine g%d panicked: %s\n%s", what, p.Gid, p.Panic, p.Stack)
			return
		}
	}
	if res.sr.Deadlock || res.sr.Budget {
		o.Fail("hang:cli:"+sub, "%s does not return: %s", what, res.sr.Stacks)
		return
	}
	if results == nil {
		// the input holds a sequence that cannot be translated and the library call reports the error: so must the
		// command - it may not end as a success with the sequences it could phase (or none at all)
		if res.err == nil && res.exit < 0 {
			n, _ := parseFastaText(res.files["out.nt.fa"])
			o.Fail("cli-differs:error-not-reported:"+sub, "%s ends as a success (%d sequences written for %d given); the library call with the same options reports an error for the sequence that cannot be translated", what, len(n), len(names))
			return
		}
		o.Add("command_line_reports_the_error", 1)
		return
	}
	if res.err != nil || res.exit >= 0 {
		o.Fail("cli-differs:error:"+sub, "%s fails (%v, exit %d); the library call with the same options delivered %d results and no error", what, res.err, res.exit, len(results))
		return
	}
	byName := map[string]phRes{}
	for _, r := range results {
		byName[r.Name] = r
	}
	read := func(name string) (ns, ss []string, ok bool) {
		b, have := res.files[name]
		if !have {
			o.Fail("cli-differs:missing-output:"+sub, "%s leaves no file %s", what, name)
			return nil, nil, false
		}
		switch {
		case strings.HasSuffix(name, ".gz"):
			zr, err := gzip.NewReader(bytes.NewReader(b))
			if err == nil {
				b, err = io.ReadAll(zr)
			}
			if err != nil {
				o.Fail("cli-differs:unreadable-output:"+sub+":"+c.Cli, "%s: %s (%d bytes) is not a complete gzip file: %v", what, name, len(res.files[name]), err)
				return nil, nil, false
			}
		case strings.HasSuffix(name, ".xz"):
			zr, err := xz.NewReader(bytes.NewReader(b))
			if err == nil {
				b, err = io.ReadAll(zr)
			}
			if err != nil {
				o.Fail("cli-differs:unreadable-output:"+sub+":"+c.Cli, "%s: %s (%d bytes) is not a complete xz file: %v", what, name, len(res.files[name]), err)
				return nil, nil, false
			}
		}
		ns, ss = parseFastaText(b)
		return ns, ss, true
	}
	outs := []struct {
		file string
		get  func(phRes) string
	}{{"out.nt.fa" + ext, func(r phRes) string { return r.Nt }}}
	if c.CliOuts&1 != 0 {
		outs = append(outs, struct {
			file string
			get  func(phRes) string
		}{"out.aa.fa" + ext, func(r phRes) string { return r.Aa }})
	}
	if !c.Translate && c.CliOuts&2 != 0 {
		outs = append(outs, struct {
			file string
			get  func(phRes) string
		}{"out.codon.fa" + ext, func(r phRes) string { return r.Codon }})
	}
	for _, out := range outs {
		gn, gs, ok := read(out.file)
		if !ok {
			return
		}
		var wn, ws []string
		for _, n := range names {
			if r, ok := byName[n]; ok && !r.Removed {
				wn = append(wn, n)
				ws = append(ws, out.get(r))
			}
		}
		if strings.Join(gn, "\x00") != strings.Join(wn, "\x00") {
			o.Fail("cli-differs:rows:"+sub, "%s: %s holds rows %q; the sequences the library call kept are, in the order of the input, %q", what, out.file, gn, wn)
			return
		}
		for i := range wn {
			if gs[i] != ws[i] {
				o.Fail("cli-differs:content:"+sub, "%s: %s gives %s as %q; the library call with the same options gives %q", what, out.file, wn[i], clip(gs[i], 80), clip(ws[i], 80))
				return
			}
		}
	}
	if c.CliOuts&4 == 0 {
		o.Add("command_line_outputs_equal_library_results", 1)
		return
	}
	// the log: a header of two lines, then one line per input sequence
	lines := strings.Split(strings.TrimRight(string(res.files["phase.log"]), "\n"), "\n")
	got := map[string]string{}
	for _, l := range lines {
		f := strings.Split(l, "\t")
		if len(f) >= 3 {
			if _, dup := got[f[0]]; dup {
				o.Fail("cli-differs:log:"+sub, "%s: the log has two lines for %s", what, f[0])
				return
			}
			got[f[0]] = f[2]
		}
	}
	for _, n := range names {
		r, ok := byName[n]
		if !ok {
			continue
		}
		want := fmt.Sprint(r.Pos)
		if r.Removed {
			want = "Removed"
		}
		if got[n] != want {
			o.Fail("cli-differs:log:"+sub, "%s: the log reports %q as start position of %s, the library call reports %s", what, got[n], n, want)
			return
		}
	}
	o.Add("command_line_outputs_equal_library_results", 1)
}
