package sim

import (
	"encoding/json"
	"fmt"
	"io"
	"log"
	"os"
	"os/exec"
	"path/filepath"
	"runtime/debug"
	"sort"
	"strings"
	"testing"
	"time"

	"github.com/evolbioinfo/goalign/verifrt"
)

// Job is what cmd/vcheck hands to a worker process (path in $VERIF_JOB).
type Job struct {
	Property    string            `json:"property"`
	Mode        string            `json:"mode"` // batch | replay | shrink
	Tier        string            `json:"tier"`
	Seed        uint64            `json:"seed"`
	Start       int               `json:"start"`  // first run index
	Stride      int               `json:"stride"` // index increment (number of workers)
	Count       int               `json:"count"`  // number of runs for this worker
	Race        bool              `json:"race"`
	Out         string            `json:"out"`
	Journal     string            `json:"journal"`
	ReplayIn    string            `json:"replay_in"`
	ReplayDir   string            `json:"replay_dir"`
	RaceLog     string            `json:"race_log"` // GORACE log_path prefix
	MaxPerClass int               `json:"max_per_class"`
	DeadlineS   int               `json:"deadline_s"` // stop starting new runs after this many seconds (0 = none)
	Extra       map[string]string `json:"extra"`
}

type FoundViolation struct {
	JobStart  int    `json:"job_start"`  // first run index and stride of the worker process that found it:
	JobStride int    `json:"job_stride"` // the runs this process executed before, in order
	Index   int    `json:"index"`
	RunSeed uint64 `json:"runseed"`
	Class   string `json:"class"`
	Detail  string `json:"detail"`
	Replay  string `json:"replay"`
	Race    bool   `json:"race"`
}

type BatchResult struct {
	Runs       int              `json:"runs"`
	Nontrivial int              `json:"nontrivial"`
	Sigs       []uint64         `json:"sigs"` // distinct signatures of non-trivial runs
	Stats      map[string]int64 `json:"stats"`
	Samples    []interface{}    `json:"samples"`
	Violations []FoundViolation `json:"violations"`
	ClassCount map[string]int   `json:"class_count"`
	WallS      float64          `json:"wall_s"`
	Complete   bool             `json:"complete"`
	Diverged   string           `json:"diverged,omitempty"`
	Rule       string           `json:"rule,omitempty"`
	EnumSize   int              `json:"enum_size,omitempty"`
	// replay / shrink
	Reproduced  bool   `json:"reproduced"`
	Class       string `json:"class,omitempty"`
	Detail      string `json:"detail,omitempty"`
	ShrinkTried int    `json:"shrink_tried,omitempty"`
	ShrinkKept  int    `json:"shrink_kept,omitempty"`
}

func TestWorker(t *testing.T) {
	jp := os.Getenv("VERIF_JOB")
	if jp == "" {
		t.Skip("no VERIF_JOB")
	}
	b, err := os.ReadFile(jp)
	if err != nil {
		t.Fatal(err)
	}
	var job Job
	if err := json.Unmarshal(b, &job); err != nil {
		t.Fatal(err)
	}
	p := registry[job.Property]
	if p == nil {
		t.Fatalf("unknown property %q", job.Property)
	}
	log.SetOutput(io.Discard)
	// goalign prints warnings through os.Stderr; the runtime writes crash
	// reports to file descriptor 2 directly, which stays the captured file
	if dn, err := os.OpenFile(os.DevNull, os.O_WRONLY, 0); err == nil {
		os.Stderr = dn
	}
	debug.SetGCPercent(400)
	verifrt.ExitAsPanic = true
	jobExtra = job.Extra
	var res BatchResult
	switch job.Mode {
	case "batch":
		res = runBatch(t, p, &job)
	case "replay":
		res = runReplay(t, p, &job)
	case "shrink":
		res = runShrink(t, p, &job)
	default:
		t.Fatalf("unknown mode %q", job.Mode)
	}
	out, _ := json.Marshal(res)
	if err := os.WriteFile(job.Out+".tmp", out, 0644); err != nil {
		t.Fatal(err)
	}
	os.Rename(job.Out+".tmp", job.Out)
}

var jobExtra map[string]string

// raceWatch reads the detector's reports as they appear in its log file.
type raceWatch struct {
	path string
	off  int64
	last int
}

func newRaceWatch(job *Job) *raceWatch {
	if !verifrt.RaceBuild || job.RaceLog == "" {
		return nil
	}
	return &raceWatch{path: fmt.Sprintf("%s.%d", job.RaceLog, os.Getpid()), last: verifrt.RaceErrors()}
}

type raceReport struct {
	Text  string
	Funcs [2][]string // goalign functions in the two access stacks
}

func (w *raceWatch) collect() []raceReport {
	if w == nil {
		return nil
	}
	n := verifrt.RaceErrors()
	if n == w.last {
		return nil
	}
	w.last = n
	f, err := os.Open(w.path)
	if err != nil {
		return nil
	}
	defer f.Close()
	f.Seek(w.off, 0)
	b, _ := io.ReadAll(f)
	w.off += int64(len(b))
	var out []raceReport
	for _, rep := range strings.Split(string(b), "==================") {
		if !strings.Contains(rep, "DATA RACE") {
			continue
		}
		rr := raceReport{Text: strings.TrimSpace(rep)}
		// sections are separated by blank lines; the first two are the accesses
		secs := strings.Split(strings.TrimSpace(rep), "\n\n")
		k := 0
		for _, s := range secs {
			if k >= 2 {
				break
			}
			first := strings.SplitN(strings.TrimSpace(s), "\n", 2)[0]
			if strings.Contains(first, "DATA RACE") {
				// header line is glued to the first access section
				if idx := strings.Index(s, "\n"); idx >= 0 {
					s = s[idx+1:]
				}
			}
			rr.Funcs[k] = raceStackFuncs(s)
			k++
		}
		out = append(out, rr)
	}
	return out
}

func raceStackFuncs(sec string) []string {
	var out []string
	for _, line := range strings.Split(sec, "\n") {
		line = strings.TrimSpace(line)
		if !strings.HasPrefix(line, "github.com/evolbioinfo/goalign/") {
			continue
		}
		f := strings.TrimPrefix(line, "github.com/evolbioinfo/goalign/")
		if i := strings.LastIndex(f, "("); i > 0 {
			f = f[:i]
		}
		if strings.HasPrefix(f, "verifrt.") {
			continue
		}
		out = append(out, f)
	}
	return out
}

// raceViolation turns the reports of one run into a violation: only reports
// whose two access stacks both contain a goalign frame count.
func raceViolation(reps []raceReport) *Violation {
	for _, r := range reps {
		if len(r.Funcs[0]) == 0 || len(r.Funcs[1]) == 0 {
			continue
		}
		a, b := r.Funcs[0][0], r.Funcs[1][0]
		if a > b {
			a, b = b, a
		}
		return &Violation{Class: "race:" + a + "|" + b, Detail: r.Text}
	}
	return nil
}

// RaceJudge lets a property decide whether race reports of a run count.
type RaceJudge interface {
	RaceCounts(c interface{}, o *Outcome) bool
}

// RaceFilter lets a property leave single reports out (by the text of the report).
type RaceFilter interface {
	RaceRelevant(text string) bool
}

// runOne executes one case with panic containment for the calling goroutine.
func runOne(t *testing.T, p Property, ctx *Ctx, c interface{}, rw *raceWatch) (o Outcome) {
	func() {
		defer func() {
			if r := recover(); r != nil {
				st := string(debug.Stack())
				fs := goalignFuncs(st)
				top := "harness"
				if len(fs) > 0 {
					top = fs[0]
				}
				if ep, ok := r.(verifrt.ExitPanic); ok {
					o.V = &Violation{Class: "exit:" + top, Detail: fmt.Sprintf("goalign called os.Exit(%d)\n%s", ep.Code, st)}
				} else {
					o.V = &Violation{Class: "panic:" + top, Detail: fmt.Sprintf("panic: %v\n%s", r, st)}
				}
			}
		}()
		o = p.Run(ctx, c)
	}()
	if reps := rw.collect(); len(reps) > 0 {
		o.Add("race_reports_raw", int64(len(reps)))
		counts := true
		if j, ok := p.(RaceJudge); ok {
			counts = j.RaceCounts(c, &o)
		}
		if f, ok := p.(RaceFilter); ok {
			var keep []raceReport
			for _, r := range reps {
				if f.RaceRelevant(r.Text) {
					keep = append(keep, r)
				} else {
					o.Add("race_reports_filtered", 1)
				}
			}
			reps = keep
		}
		if v := raceViolation(reps); v != nil {
			if counts {
				if o.V == nil {
					o.V = v
				}
			} else {
				o.Add("race_reports_outside_property_scope", 1)
			}
		}
	}
	return o
}

func writeReplay(p Property, job *Job, runseed uint64, c interface{}, v *Violation, path string, shrunk bool) error {
	cb, err := json.Marshal(c)
	if err != nil {
		return err
	}
	rp := Replay{Property: p.ID(), RunSeed: runseed, Tier: job.Tier, Race: job.Race, Index: -1, Class: v.Class, Detail: v.Detail, Shrunk: shrunk, Case: cb}
	b, _ := json.MarshalIndent(rp, "", " ")
	os.MkdirAll(filepath.Dir(path), 0755)
	return os.WriteFile(path, b, 0644)
}

func runBatch(t *testing.T, p Property, job *Job) (res BatchResult) {
	t0 := time.Now()
	res.Stats = map[string]int64{}
	res.ClassCount = map[string]int{}
	sigs := map[uint64]bool{}
	jf, err := os.OpenFile(job.Journal, os.O_CREATE|os.O_WRONLY|os.O_APPEND, 0644)
	if err != nil {
		t.Fatal(err)
	}
	defer jf.Close()
	var tf *os.File
	if tp := job.Extra["trace"]; tp != "" {
		tf, _ = os.Create(tp)
		defer tf.Close()
	}
	rw := newRaceWatch(job)
	if job.MaxPerClass == 0 {
		job.MaxPerClass = 2
	}
	lastFlush := time.Now()
	flush := func() {
		// partial result: survives the death of this process in a later run
		pr := res
		pr.Sigs = nil
		for s := range sigs {
			pr.Sigs = append(pr.Sigs, s)
		}
		pr.Rule = p.Rule()
		out, _ := json.Marshal(pr)
		if os.WriteFile(job.Out+".part.tmp", out, 0644) == nil {
			os.Rename(job.Out+".part.tmp", job.Out+".part")
		}
		lastFlush = time.Now()
	}
	for k := 0; k < job.Count; k++ {
		if k%256 == 255 && time.Since(lastFlush) > time.Second {
			flush()
		}
		if job.DeadlineS > 0 && time.Since(t0) > time.Duration(job.DeadlineS)*time.Second {
			break
		}
		idx := job.Start + k*job.Stride
		rs := Mix(job.Seed, job.Property, job.Race, idx)
		fmt.Fprintf(jf, "B %d %d\n", idx, rs)
		var c interface{}
		if en, ok := p.(Enumerator); ok && !job.Race && idx < en.EnumCount(job.Tier) {
			c = en.EnumCase(job.Tier, idx)
		} else {
			c = p.Gen(rs, job.Tier, job.Race)
		}
		ctx := &Ctx{T: t, Tier: job.Tier, Race: job.Race}
		o := runOne(t, p, ctx, c, rw)
		fmt.Fprintf(jf, "E %d\n", idx)
		if tf != nil {
			// determinism self-test: one line per run with everything the run produced
			cls := ""
			if o.V != nil {
				cls = o.V.Class
			}
			var sh []interface{}
			for _, key := range sortedKeys(o.Stats) {
				if strings.HasPrefix(key, "race_reports_") {
					// whether the detector still holds the earlier access of a racing pair is its own affair (4 shadow cells
					// per word, replaced at random): reports outside the property's scope are counted, not compared
					continue
				}
				sh = append(sh, key, o.Stats[key])
			}
			cb, _ := json.Marshal(c)
			fmt.Fprintf(tf, "%d %d sig=%x nt=%v class=%q stats=%x case=%x\n", idx, rs, o.Sig, o.Nontrivial, cls, hash64(sh...), hash64(string(cb)))
		}
		res.Runs++
		for _, key := range sortedKeys(o.Stats) {
			res.Stats[key] += o.Stats[key]
		}
		if o.Nontrivial {
			res.Nontrivial++
			sigs[o.Sig] = true
		}
		if o.Sample != nil && len(res.Samples) < 3 && (o.Nontrivial || k > job.Count/2) {
			res.Samples = append(res.Samples, o.Sample)
		}
		if o.V != nil {
			res.ClassCount[o.V.Class]++
			if res.ClassCount[o.V.Class] <= job.MaxPerClass && len(res.Violations) < 200 {
				path := filepath.Join(job.ReplayDir, fmt.Sprintf("cand-%d.json", idx))
				if err := writeReplay(p, job, rs, c, o.V, path, false); err != nil {
					t.Fatal(err)
				}
				d := o.V.Detail
				if len(d) > 2000 {
					d = d[:2000] + " ..."
				}
				res.Violations = append(res.Violations, FoundViolation{JobStart: job.Start, JobStride: job.Stride, Index: idx, RunSeed: rs, Class: o.V.Class, Detail: d, Replay: path, Race: job.Race})
			}
		}
	}
	res.Complete = true
	if en, ok := p.(Enumerator); ok && !job.Race {
		res.EnumSize = en.EnumCount(job.Tier)
	}
	res.Rule = p.Rule()
	for s := range sigs {
		res.Sigs = append(res.Sigs, s)
	}
	sort.Slice(res.Sigs, func(a, b int) bool { return res.Sigs[a] < res.Sigs[b] })
	res.WallS = time.Since(t0).Seconds()
	return
}

func loadReplay(t *testing.T, p Property, path string) (Replay, interface{}) {
	b, err := os.ReadFile(path)
	if err != nil {
		t.Fatal(err)
	}
	var rp Replay
	if err := json.Unmarshal(b, &rp); err != nil {
		t.Fatal(err)
	}
	c := p.New()
	if len(rp.Case) == 0 || string(rp.Case) == "null" {
		// seed-only replay (written by the supervisor for a worker that died)
		if en, ok := p.(Enumerator); ok && !rp.Race && rp.Index >= 0 && rp.Index < en.EnumCount(rp.Tier) {
			c = en.EnumCase(rp.Tier, rp.Index)
		} else {
			c = p.Gen(rp.RunSeed, rp.Tier, rp.Race)
		}
	} else if err := json.Unmarshal(rp.Case, c); err != nil {
		t.Fatal(err)
	}
	return rp, c
}

func runReplay(t *testing.T, p Property, job *Job) (res BatchResult) {
	rp, c := loadReplay(t, p, job.ReplayIn)
	rw := newRaceWatch(job)
	jf, _ := os.OpenFile(job.Journal, os.O_CREATE|os.O_WRONLY|os.O_APPEND, 0644)
	if jf != nil {
		fmt.Fprintf(jf, "B %d %d\n", -1, rp.RunSeed)
		defer jf.Close()
	}
	ctx := &Ctx{T: t, Tier: rp.Tier, Race: job.Race, Strict: !rp.Shrunk && job.Extra["lenient"] == ""}
	o := runOne(t, p, ctx, c, rw)
	if jf != nil {
		fmt.Fprintf(jf, "E %d\n", -1)
	}
	res.Runs = 1
	res.Complete = true
	res.Diverged = ctx.Diverged
	if o.V != nil {
		res.Reproduced = true
		res.Class = o.V.Class
		res.Detail = o.V.Detail
	}
	return
}

// runShrink minimises a failing case: a candidate is kept when it fails with
// the same class. Candidates whose failure kills the process are executed in
// a child process.
func runShrink(t *testing.T, p Property, job *Job) (res BatchResult) {
	rp, c := loadReplay(t, p, job.ReplayIn)
	want := rp.Class
	sub := strings.HasPrefix(want, "procdeath:")
	rw := newRaceWatch(job)
	try := func(cand interface{}) *Violation {
		if sub {
			return tryInChild(t, p, job, rp, cand)
		}
		ctx := &Ctx{T: t, Tier: rp.Tier, Race: job.Race}
		o := runOne(t, p, ctx, cand, rw)
		return o.V
	}
	t0 := time.Now()
	budget := 2000
	if job.Race {
		// the detector reports a stack pair once per process: shrink in children
		sub = strings.HasPrefix(want, "race:") || sub
		budget = 150
	}
	if sub {
		budget = 150
	}
	cur := c
	var curV *Violation
	progress := true
	for progress && res.ShrinkTried < budget && time.Since(t0) < 45*time.Second {
		progress = false
		for _, cand := range p.Shrink(cur) {
			if res.ShrinkTried >= budget || time.Since(t0) > 45*time.Second {
				break
			}
			res.ShrinkTried++
			cc := cloneCase(p, cand)
			if v := try(cc); v != nil && v.Class == want {
				cur = cc // carries the recorded choices of its own run
				curV = v
				res.ShrinkKept++
				progress = true
				break
			}
		}
	}
	if curV == nil {
		curV = &Violation{Class: rp.Class, Detail: rp.Detail}
	}
	if err := writeReplay(p, job, rp.RunSeed, cur, curV, job.Out+".replay.json", true); err != nil {
		t.Fatal(err)
	}
	res.Complete = true
	res.Reproduced = true
	res.Class = curV.Class
	res.Detail = curV.Detail
	return
}

func tryInChild(t *testing.T, p Property, job *Job, rp Replay, cand interface{}) *Violation {
	dir, err := os.MkdirTemp(filepath.Dir(job.Out), "child")
	if err != nil {
		t.Fatal(err)
	}
	defer os.RemoveAll(dir)
	v := &Violation{Class: rp.Class, Detail: rp.Detail}
	rpath := filepath.Join(dir, "in.json")
	j2 := *job
	j2.Race = job.Race
	if err := writeReplay(p, &j2, rp.RunSeed, cand, v, rpath, true); err != nil {
		t.Fatal(err)
	}
	cj := Job{Property: job.Property, Mode: "replay", Tier: rp.Tier, Race: job.Race, Out: filepath.Join(dir, "out.json"),
		Journal: filepath.Join(dir, "journal"), ReplayIn: rpath, RaceLog: filepath.Join(dir, "race"), Extra: job.Extra}
	jb, _ := json.Marshal(cj)
	jp := filepath.Join(dir, "job.json")
	os.WriteFile(jp, jb, 0644)
	cmd := exec.Command(os.Args[0], "-test.run", "^TestWorker$", "-test.timeout", "120s")
	cmd.Env = append(os.Environ(), "VERIF_JOB="+jp)
	if job.Race {
		cmd.Env = append(cmd.Env, "GORACE=log_path="+cj.RaceLog+" halt_on_error=0")
	}
	stderr, _ := cmd.CombinedOutput()
	ob, err := os.ReadFile(cj.Out)
	if err != nil {
		// child died: classify like the supervisor does
		cl := ClassifyDeath(string(stderr))
		return &Violation{Class: cl, Detail: tail(string(stderr), 3000)}
	}
	var r BatchResult
	json.Unmarshal(ob, &r)
	if r.Reproduced {
		return &Violation{Class: r.Class, Detail: r.Detail}
	}
	return nil
}

func tail(s string, n int) string {
	if len(s) > n {
		return "... " + s[len(s)-n:]
	}
	return s
}

// ClassifyDeath names the failure class of a worker process that died, from
// its stderr. Mirrored in cmd/vcheck (which cannot import this package).
func ClassifyDeath(stderr string) string {
	kind := "unknown"
	switch {
	case strings.Contains(stderr, "fatal error: all goroutines are asleep"):
		kind = "deadlock"
	case strings.Contains(stderr, "out of memory") || strings.Contains(stderr, "cannot allocate memory"):
		kind = "oom"
	case strings.Contains(stderr, "stack overflow"):
		kind = "stackoverflow"
	case strings.Contains(stderr, "fatal error:"):
		kind = "fatal"
	case strings.Contains(stderr, "verifrt: exit("):
		kind = "exit"
	case strings.Contains(stderr, "panic:"):
		kind = "panic"
	}
	top := "?"
	i := strings.Index(stderr, "panic:")
	if j := strings.Index(stderr, "fatal error:"); j >= 0 && (i < 0 || j < i) {
		i = j
	}
	if i >= 0 {
		if fs := goalignFuncs(stderr[i:]); len(fs) > 0 {
			top = fs[0]
		}
	}
	return "procdeath:" + kind + ":" + top
}
