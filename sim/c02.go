package sim

import (
	"bufio"
	"bytes"
	"compress/gzip"
	"fmt"
	"io"
	"os"
	"runtime/debug"
	"strings"

	"github.com/evolbioinfo/goalign/align"
	"github.com/evolbioinfo/goalign/io/clustal"
	"github.com/evolbioinfo/goalign/io/fasta"
	"github.com/evolbioinfo/goalign/io/nexus"
	"github.com/evolbioinfo/goalign/io/phylip"
	"github.com/evolbioinfo/goalign/io/stockholm"
	"github.com/evolbioinfo/goalign/io/utils"
	"github.com/evolbioinfo/goalign/verifrt"
)

// C02 — Every alignment format round-trips losslessly through writer and
// parser. What the simulator owns: how the written bytes reach the parser
// (fragmentation, empty reads, EOF style), the real file layer with its
// bufio -> gzip/xz -> file stack, and - for a stream of several Phylip
// alignments - the interleaving of the parser goroutine, its reads, the
// consumer and the close of the underlying file.

type C02Step struct {
	Format  string `json:"format"` // fasta phylip phylip-strict nexus clustal stockholm
	OneLine bool   `json:"oneline,omitempty"`
	NoBlock bool   `json:"noblock,omitempty"`
}

type C02Case struct {
	Mode  string    `json:"mode"` // single chain file gzstream multi auto
	Alns  []AlnSpec `json:"alns"`
	Steps []C02Step `json:"steps"`
	Plan  ReadPlan  `json:"plan"`
	Ext   string    `json:"ext,omitempty"` // file mode: "", ".gz", ".xz"
	Members int     `json:"members,omitempty"` // gzstream and file(.gz) modes: the text is compressed as this many gzip members (a compressor that works block by block, or files put together with cat)
	Gz    bool      `json:"gz,omitempty"`    // multi mode: the streams are gzip streams opened through GetReaderFromReader
	Twin  bool      `json:"twin,omitempty"`  // multi mode: a second stream (the same alignments in reverse order) is parsed at the same time
	Stale int       `json:"stale,omitempty"` // file modes: the output path already holds this many bytes left by an earlier run
	// multi mode: the schedule
	Seed    uint64 `json:"seed"`
	Policy  int    `json:"policy"`
	Choices []int  `json:"choices"`
}

type c02 struct{}

func init() { Register(c02{}) }

func (c02) ID() string       { return "C02" }
func (c02) New() interface{} { return &C02Case{} }
func (c02) Rule() string {
	return "each run: an alignment of 1-10 rows (95-140 in one run of a hundred) whose length is drawn from the widths that straddle every writer line and block (10, 50, 60, 80, their neighbours and multiples) or at random, nucleotide or protein IUPAC residues in both cases with '-', '*', '?', names of 1-14 printable non-blank characters that the formats of the run can represent (<= 10 for strict Phylip; all-digit names included), and one of seven modes: single (writer -> simulated stream -> parser), chain (2-4 formats in a row), file (utils.OpenWriteFile -> real temp file, plain/.gz/.xz, fresh or already holding 1-120000 bytes of an earlier output -> utils.ReadAlign / GetReader), gzstream (gzip bytes through the simulated stream and GetReaderFromReader), auto (format detection), multifile (2-5 Phylip alignments of sizes on both sides of 4096 bytes written one after the other to one plain/.gz/.xz file and read back with ParseMultiAlignmentsAuto), multi (1-25 Phylip alignments in one stream through ParseMultiAlignmentsAuto with the parser goroutine, every read of the simulated file, the consumer and the close under the seeded scheduler; in 3 runs of 10 a second stream - the same alignments in reverse order - is parsed by another goroutine in the same schedule). Distinct = distinct (mode, formats and options, alignment shape, fragment plan or schedule hash); non-trivial = the alignment has at least 2 rows and 2 columns, or the stream holds at least 2 alignments."
}

func (c *C02Case) maybeGz(data []byte) []byte {
	if !c.Gz {
		return data
	}
	return gzipMembers(string(data), 1)
}

// gzipMembers compresses the text as k gzip members, cut at line ends where there are any (RFC 1952: the content
// of a file of several members is the concatenation of their contents).
func gzipMembers(text string, k int) []byte {
	if k < 1 {
		k = 1
	}
	var zb bytes.Buffer
	rest := text
	for m := 0; m < k; m++ {
		part := rest
		if m < k-1 {
			cut := len(rest) / (k - m)
			if i := strings.IndexByte(rest[cut:], '\n'); i >= 0 {
				cut += i + 1
			}
			part = rest[:cut]
		}
		rest = rest[len(part):]
		zw := gzip.NewWriter(&zb)
		zw.Write([]byte(part))
		zw.Close()
	}
	return zb.Bytes()
}

// leaveStale puts the disk in the state an earlier run left it in: the output path exists and holds Stale bytes
// of an older, longer or shorter, output.
func (c *C02Case) leaveStale(name string, o *Outcome) {
	if c.Stale <= 0 {
		return
	}
	old := strings.Repeat(">left_by_an_earlier_run\nACGTACGTAC\n", c.Stale/35+1)[:c.Stale]
	if err := os.WriteFile(name, []byte(old), 0644); err != nil {
		panic("harness: " + err.Error())
	}
	o.Add("fault_output_path_exists_with_older_content", 1)
}

var c02Formats = []string{"fasta", "phylip", "phylip-strict", "nexus", "clustal", "stockholm"}

// Characters a sequence name may be made of, per format: printable,
// non-blank, and not one of the format's own delimiters. Written from the
// statement and the format definitions, not by trying the parsers.
const nameCommon = "abcdefghijklmnopqrstuvwxyzABCDEFGHIJKLMNOPQRSTUVWXYZ0123456789_.|"

var nameExtra = map[string]string{
	// FASTA: a name is the rest of the line after '>'
	"fasta": "-+:@!%&^~$/\\,;=()[]{}#*?'\"<",
	// Phylip: names end at the first blank (relaxed) or after 10 characters (strict)
	"phylip":        "-+:@!%&^~$/\\,;=()[]{}#*?'\"<>",
	"phylip-strict": "-+:@!%&^~$/\\,;=()[]{}#*?'\"<>",
	// Nexus: the standard's punctuation ( ) [ ] { } / \ , ; : = * ' " ` + - < > cannot be part of an unquoted token
	"nexus": "@!%&^~$?#",
	// Clustal: names end at the first blank
	"clustal": "-+:@!%&^~$/\\,;=()[]{}#*?'\"<>",
	// Stockholm: names end at the first blank; '#' starts mark-up, '/' is used by name/start-end and the // terminator
	"stockholm": "-+:@!%&^~$,()*?'\"<>",
}

var c02Keywords = map[string]bool{"begin": true, "end": true, "matrix": true, "dimensions": true, "format": true, "ntax": true, "nchar": true,
	"datatype": true, "missing": true, "gap": true, "matchchar": true, "taxa": true, "data": true, "characters": true, "trees": true,
	"taxlabels": true, "#nexus": true, "stockholm": true, "clustal": true, "//": true, "endblock": true}

func genName(r *Rand, formats []string, maxLen int) string {
	extra := ""
	for i, f := range formats {
		e := nameExtra[f]
		if i == 0 {
			extra = e
			continue
		}
		var keep []byte
		for k := 0; k < len(extra); k++ {
			if strings.IndexByte(e, extra[k]) >= 0 {
				keep = append(keep, extra[k])
			}
		}
		extra = string(keep)
	}
	for {
		n := 1 + r.Intn(maxLen)
		if r.Chance(0.2) {
			n = maxLen
		}
		b := make([]byte, n)
		switch {
		case r.Chance(0.02) && maxLen >= 8:
			// a name that begins with, or ends in, a word one of the formats gives a meaning to (not the word itself)
			w := []string{"clustal", "Clustal", "CLUSTAL", "begin", "END", "matrix", "data", "taxa", "ntax", "gap", "stockholm"}[r.Intn(11)]
			sfx := []string{"2", "O_ref", "_x", "W1", "s", "A"}[r.Intn(6)]
			nm := w + sfx
			if r.Chance(0.3) {
				nm = "x_" + w
			}
			if len(nm) > maxLen {
				nm = nm[:maxLen]
			}
			b = []byte(nm)
		case r.Chance(0.12): // all digits
			for i := range b {
				b[i] = "0123456789"[r.Intn(10)]
			}
			if b[0] == '0' && n > 1 {
				b[0] = '1'
			}
		default:
			for i := range b {
				if extra != "" && r.Chance(0.15) {
					b[i] = extra[r.Intn(len(extra))]
				} else {
					b[i] = nameCommon[r.Intn(len(nameCommon))]
				}
			}
		}
		s := string(b)
		if c02Keywords[strings.ToLower(s)] {
			continue
		}
		return s
	}
}

func genIOAln(r *Rand, formats []string, maxRows, maxLen int) AlnSpec {
	a := AlnSpec{Alphabet: align.NUCLEOTIDS}
	if r.Chance(0.4) {
		a.Alphabet = align.AMINOACIDS
	}
	n := 1 + r.Intn(maxRows)
	l := ioLength(r, maxLen)
	lower := r.Chance(0.25)
	nameMax := 14
	for _, f := range formats {
		if f == "phylip-strict" {
			nameMax = 10
		}
	}
	seen := map[string]bool{}
	for i := 0; i < n; i++ {
		nm := genName(r, formats, nameMax)
		for seen[nm] {
			nm = genName(r, formats, nameMax)
		}
		seen[nm] = true
		a.Names = append(a.Names, nm)
		a.Seqs = append(a.Seqs, genResidues(r, l, a.Alphabet, lower, "-*?", []float64{0, 0.05, 0.2}[r.Intn(3)]))
	}
	if nameMax > 10 && r.Chance(0.006) {
		// names longer than a read buffer (4096 bytes), in some rows or in all
		all := r.Bool()
		for i := range a.Names {
			if all || i == 0 || r.Chance(0.3) {
				k := r.Pick(4090, 4095, 4096, 4097, 4100, 5000, 8192, 8200)
				b := []byte(a.Names[i])
				for len(b) < k {
					b = append(b, nameCommon[r.Intn(len(nameCommon))])
				}
				a.Names[i] = fmt.Sprintf("%s%d", b, i) // distinct
			}
		}
	}
	if r.Chance(0.015) {
		// a row whose residues spell a word one of the formats gives a meaning to (every letter of it is a residue of
		// the alphabet): the whole alignment gets that length
		words := []string{"DATA", "TAA", "GAT", "NCHAR", "TAG", "CAT"}
		if a.Alphabet == align.AMINOACIDS {
			words = []string{"BEGIN", "END", "DATA", "CHARACTERS", "TAXA", "TAXLABELS", "TREES", "TREE", "NTAX", "NCHAR", "DATATYPE", "MISSING", "MATCHCHAR", "GAP", "MATRIX", "INTERLEAVE", "TRANSLATE", "ENDBLK"}
		}
		w := words[r.Intn(len(words))]
		if len(w) <= maxLen {
			for i := range a.Seqs {
				a.Seqs[i] = genResidues(r, len(w), a.Alphabet, lower, "-", 0.05)
			}
			if r.Chance(0.3) {
				w = strings.ToLower(w)
			} else if r.Chance(0.2) {
				w = w[:1] + strings.ToLower(w[1:])
			}
			a.Seqs[r.Intn(n)] = w
		}
	}
	return a
}

func (c02) Gen(rs uint64, tier string, race bool) interface{} {
	r := NewRand(rs)
	c := &C02Case{Seed: r.U64()}
	c.Mode = r.PickS("single", "single", "single", "chain", "chain", "file", "gzstream", "auto", "multi", "multi", "multifile")
	step := func(f string) C02Step {
		s := C02Step{Format: f}
		if strings.HasPrefix(f, "phylip") {
			s.OneLine, s.NoBlock = r.Chance(0.3), r.Chance(0.3)
		}
		return s
	}
	switch c.Mode {
	case "single", "file", "gzstream":
		c.Steps = []C02Step{step(c02Formats[r.Intn(len(c02Formats))])}
	case "auto":
		c.Steps = []C02Step{step(r.PickS("fasta", "nexus", "clustal", "phylip", "phylip-strict"))}
	case "chain":
		for k := r.Range(2, 4); k > 0; k-- {
			c.Steps = append(c.Steps, step(c02Formats[r.Intn(len(c02Formats))]))
		}
	case "multi", "multifile":
		c.Steps = []C02Step{step(r.PickS("phylip", "phylip", "phylip-strict"))}
	}
	var fs []string
	for _, s := range c.Steps {
		fs = append(fs, s.Format)
	}
	if c.Mode == "multi" {
		c.Twin = r.Chance(0.3)
		c.Gz = r.Chance(0.3)
	}
	if c.Mode == "gzstream" || c.Mode == "file" {
		c.Members = r.Pick(1, 1, 2, 3)
	}
	if c.Mode == "file" || c.Mode == "multifile" {
		c.Ext = r.PickS("", "", ".gz", ".gz", ".gz", ".gz", ".gz", ".xz")
		if r.Chance(0.06) {
			// a suffix in another case, or in the middle of the name: what the writing side takes it for (plain), the
			// reading side must take it for
			c.Ext = r.PickS(".GZ", ".Gz", ".XZ", ".gz.txt", ".xz.fa", ".gzip")
		}
		c.Stale = r.Pick(0, 0, 0, 1, 300, 6000, 120000)
	}
	if c.Mode == "multifile" {
		// several alignments written one after the other to one file, of sizes on both sides of the
		// 4096-byte buffers of the file layer
		k := r.Range(2, 5)
		for i := 0; i < k; i++ {
			if r.Chance(0.4) {
				c.Alns = append(c.Alns, genIOAln(r, fs, 40, 200))
				for len(c.Alns[i].Names) < 25 { // make it large: more than 4096 bytes once written
					c.Alns[i] = genIOAln(r, fs, 40, 200)
				}
			} else {
				c.Alns = append(c.Alns, genIOAln(r, fs, 4, 30))
			}
			if i > 0 {
				c.Steps = append(c.Steps, step(c.Steps[0].Format))
			}
		}
		return c
	}
	c.Plan = genReadPlan(r)
	if c.Mode == "multi" {
		k := r.Range(1, 6)
		if r.Chance(0.25) {
			k = r.Range(14, 25) // more than the 15 slots of the channel
		}
		for i := 0; i < k; i++ {
			if r.Chance(0.2) {
				c.Alns = append(c.Alns, genIOAln(r, fs, 3, 130)) // several blocks: the parser looks ahead across the alignment boundary
			} else {
				c.Alns = append(c.Alns, genIOAln(r, fs, 4, 14))
			}
		}
		c.Policy = r.Pick(PolUniform, PolUniform, PolSticky, PolPCT, PolStarve, PolStarve)
		if c.Plan.Mode == FragOne || c.Plan.Mode == FragSmall {
			c.Plan.Mode = r.Pick(FragLine, FragBufio, FragAll, FragMixed, FragSmall)
		}
		// the options are those of the first step for every alignment but may differ per alignment
		for i := 1; i < k; i++ {
			c.Steps = append(c.Steps, step(c.Steps[0].Format))
		}
	} else {
		c.Alns = []AlnSpec{genIOAln(r, fs, 10, 200)}
		if r.Chance(0.04) {
			// the smallest files there are: one or two rows of 1-3 residues under names of 1-2 characters (a whole FASTA
			// file of 5 bytes), shorter than any keyword a format detector may want to look at
			t := genIOAln(r, fs, 2, 3)
			for i := range t.Names {
				t.Names[i] = string("abXZ19"[r.Intn(6)]) + []string{"", "", "c", "7"}[r.Intn(4)]
				if i > 0 && t.Names[i] == t.Names[0] {
					t.Names[i] = "q"
				}
				t.Seqs[i] = t.Seqs[i][:1+(len(t.Seqs[0])-1)%3]
			}
			c.Alns[0] = t
		}
		if r.Chance(0.01) {
			// many rows: beyond the first capacity of the tables the parsers keep per row
			for tall := genIOAln(r, fs, 140, 130); ; tall = genIOAln(r, fs, 140, 130) {
				if len(tall.Names) >= 95 {
					c.Alns[0] = tall
					break
				}
			}
			if c.Plan.Mode == FragOne {
				c.Plan.Mode = FragSmall
			}
		}
	}
	return c
}

// ---------------------------------------------------------------------

func c02Write(al align.Alignment, s C02Step) string {
	switch s.Format {
	case "fasta":
		return fasta.WriteAlignment(al)
	case "phylip":
		return phylip.WriteAlignment(al, false, s.OneLine, s.NoBlock)
	case "phylip-strict":
		return phylip.WriteAlignment(al, true, s.OneLine, s.NoBlock)
	case "nexus":
		return nexus.WriteAlignment(al)
	case "clustal":
		return clustal.WriteAlignment(al)
	case "stockholm":
		return stockholm.WriteAlignment(al)
	}
	panic("format " + s.Format)
}

func c02Parse(r io.Reader, format string) (align.Alignment, error) {
	switch format {
	case "fasta":
		return fasta.NewParser(r).Parse()
	case "phylip":
		return phylip.NewParser(r, false).Parse()
	case "phylip-strict":
		return phylip.NewParser(r, true).Parse()
	case "nexus":
		return nexus.NewParser(r).Parse()
	case "clustal":
		return clustal.NewParser(r).Parse()
	case "stockholm":
		return stockholm.NewParser(r).Parse()
	}
	panic("format " + format)
}

// buildOriginal: the alignment as a user would hold it: content + detected alphabet.
func buildOriginal(a *AlnSpec) (align.Alignment, error) {
	al := align.NewAlign(align.UNKNOWN)
	for i := range a.Names {
		if err := al.AddSequence(a.Names[i], a.Seqs[i], ""); err != nil {
			return nil, err
		}
	}
	al.AutoAlphabet()
	return al, nil
}

// sameAlignment compares a parsed alignment with the reference content.
func sameAlignment(a *AlnSpec, wantAlpha int, got align.Alignment) string {
	if got == nil {
		return "the parser returned no alignment"
	}
	if got.NbSequences() != len(a.Names) {
		return fmt.Sprintf("%d sequences written, %d parsed", len(a.Names), got.NbSequences())
	}
	if got.Length() != len(a.Seqs[0]) {
		return fmt.Sprintf("length %d written, %d parsed", len(a.Seqs[0]), got.Length())
	}
	for i := range a.Names {
		nm, _ := got.GetSequenceNameById(i)
		s, _ := got.GetSequenceById(i)
		if nm != a.Names[i] {
			return fmt.Sprintf("row %d: name %q written, %q parsed", i, a.Names[i], nm)
		}
		if s != a.Seqs[i] {
			k := 0
			for k < len(s) && k < len(a.Seqs[i]) && s[k] == a.Seqs[i][k] {
				k++
			}
			return fmt.Sprintf("row %d (%q): residues differ from column %d on: written %q, parsed %q", i, nm, k, clip(a.Seqs[i][k:], 30), clip(s[min(k, len(s)):], 30))
		}
	}
	if got.Alphabet() != wantAlpha {
		return fmt.Sprintf("alphabet %d detected on the original, %d on the parsed alignment", wantAlpha, got.Alphabet())
	}
	return ""
}

func clip(s string, n int) string {
	if len(s) > n {
		return s[:n] + "..."
	}
	return s
}

func stepName(s C02Step) string {
	n := s.Format
	if s.OneLine {
		n += "+oneline"
	}
	if s.NoBlock {
		n += "+noblock"
	}
	return n
}

func (c *C02Case) describe() string {
	var sb strings.Builder
	var st []string
	for _, s := range c.Steps {
		st = append(st, stepName(s))
	}
	fmt.Fprintf(&sb, "mode=%s steps=%v ext=%q plan={%s zero=%v eofwithdata=%v}", c.Mode, st, c.Ext, fragNames[c.Plan.Mode%nFragModes], c.Plan.ZeroReads, c.Plan.EOFWithData)
	for k, a := range c.Alns {
		if k >= 3 {
			fmt.Fprintf(&sb, "\n... %d more alignments", len(c.Alns)-k)
			break
		}
		fmt.Fprintf(&sb, "\nalignment #%d (%d x %d):\n%s", k, len(a.Names), len(a.Seqs[0]), clip(a.String(), 1200))
	}
	return sb.String()
}

var fmtConst = map[string]int{"fasta": align.FORMAT_FASTA, "phylip": align.FORMAT_PHYLIP, "phylip-strict": align.FORMAT_PHYLIP, "nexus": align.FORMAT_NEXUS, "clustal": align.FORMAT_CLUSTAL}

func (c02) Run(ctx *Ctx, ci interface{}) (o Outcome) {
	c := ci.(*C02Case)
	o.Add("mode_"+c.Mode, 1)
	a0 := &c.Alns[0]
	o.Nontrivial = (len(a0.Names) >= 2 && len(a0.Seqs[0]) >= 2) || len(c.Alns) >= 2
	fail := func(class, format string, a ...interface{}) {
		o.Fail(class, format+"\n%s", append(a, c.describe())...)
	}
	defer func() {
		if p := recover(); p != nil {
			if _, ok := p.(verifrt.ExitPanic); ok {
				st := string(debug.Stack())
				fail("exit:"+parserFunc(st), "goalign called os.Exit while reading back what it wrote\n%s", st)
				return
			}
			panic(p)
		}
	}()
	for _, s := range c.Steps {
		o.Add("format_"+stepName(s), 1)
	}
	if l := len(a0.Seqs[0]); l == 10 || l == 50 || l == 60 || l == 80 || l == 120 || l == 100 || l == 160 {
		o.Add("probe_length_exactly_on_a_line_or_block_width", 1)
	}
	orig, err := buildOriginal(a0)
	if err != nil {
		panic("harness: " + err.Error())
	}
	wantAlpha := orig.Alphabet()
	var shape []interface{}
	shape = append(shape, c.Mode, c.Ext, len(a0.Names), len(a0.Seqs[0]), len(c.Alns), c.Plan.Mode, c.Plan.ZeroReads, c.Plan.EOFWithData)
	for _, s := range c.Steps {
		shape = append(shape, stepName(s))
	}
	o.Sig = hash64(shape...)

	switch c.Mode {
	case "single", "chain", "auto":
		cur := orig
		for k, s := range c.Steps {
			text := c02Write(cur, s)
			f := newSimFile([]byte(text), c.Plan)
			var got align.Alignment
			var err error
			if c.Mode == "auto" {
				var format int
				got, format, err = utils.ParseAlignmentAuto(bufio.NewReader(f), s.Format == "phylip-strict")
				if err == nil && format != fmtConst[s.Format] {
					fail("autodetect:wrong-format:"+s.Format, "written as %s, detected as format %d", stepName(s), format)
					return
				}
			} else {
				got, err = c02Parse(f, s.Format)
			}
			o.Add("stream_reads", int64(f.reads))
			if err != nil {
				fail("roundtrip:parse-error:"+s.Format, "step %d: the %s parser rejects what the %s writer wrote: %v\nfile:\n%s", k, s.Format, stepName(s), err, clip(text, 1500))
				return
			}
			if d := sameAlignment(a0, wantAlpha, got); d != "" {
				fail("roundtrip:differs:"+s.Format, "step %d (%s): %s\nfile:\n%s", k, stepName(s), d, clip(text, 1500))
				return
			}
			cur = got
			o.Add("round_trips", 1)
		}
	case "gzstream":
		s := c.Steps[0]
		text := c02Write(orig, s)
		zb := gzipMembers(text, c.Members)
		if c.Members > 1 {
			o.Add("gzip_streams_of_several_members", 1)
		}
		f := newSimFile(zb, c.Plan)
		rd, err := utils.GetReaderFromReader(true, f)
		if err != nil {
			fail("gzstream:open-error", "GetReaderFromReader: %v", err)
			return
		}
		got, err := c02Parse(rd, s.Format)
		o.Add("stream_reads", int64(f.reads))
		if err != nil {
			fail("roundtrip:parse-error:gz:"+s.Format, "the %s parser rejects the gzipped output of the writer: %v", s.Format, err)
			return
		}
		if d := sameAlignment(a0, wantAlpha, got); d != "" {
			fail("roundtrip:differs:gz:"+s.Format, "%s: %s", stepName(s), d)
			return
		}
		o.Add("round_trips", 1)
	case "file":
		s := c.Steps[0]
		text := c02Write(orig, s)
		name := fmt.Sprintf("c02-%d%s", os.Getpid(), c.Ext)
		defer os.Remove(name)
		c.leaveStale(name, &o)
		if c.Ext == ".gz" && c.Members > 1 {
			// the file as another compliant compressor leaves it: several gzip members, read back by goalign
			if err := os.WriteFile(name, gzipMembers(text, c.Members), 0644); err != nil {
				panic("harness: " + err.Error())
			}
			o.Add("gzip_files_of_several_members", 1)
		} else {
			w, err := utils.OpenWriteFile(name)
			if err != nil {
				panic("harness: " + err.Error())
			}
			if _, err := w.WriteString(text); err != nil {
				fail("file:write-error"+c.Ext, "WriteString: %v", err)
				return
			}
			utils.CloseWriteFile(w, name)
		}
		o.Add("file_ext_"+strings.TrimPrefix(c.Ext+".plain", "."), 1)
		var got align.Alignment
		if fc, ok := fmtConst[s.Format]; ok && s.Format != "phylip-strict" {
			got, err = utils.ReadAlign(name, fc, align.BOTH)
		} else {
			var cl io.Closer
			var rd *bufio.Reader
			if cl, rd, err = utils.GetReader(name); err == nil {
				got, err = c02Parse(rd, s.Format)
				cl.Close()
			}
		}
		if err != nil {
			fail("roundtrip:parse-error:file"+c.Ext+":"+s.Format, "reading back %s: %v", name, err)
			return
		}
		if d := sameAlignment(a0, wantAlpha, got); d != "" {
			fail("roundtrip:differs:file"+c.Ext+":"+s.Format, "%s written to %s: %s", stepName(s), name, d)
			return
		}
		o.Add("round_trips", 1)
	case "multi":
		c.runMulti(ctx, &o, fail)
	case "multifile":
		name := fmt.Sprintf("c02m-%d%s", os.Getpid(), c.Ext)
		defer os.Remove(name)
		c.leaveStale(name, &o)
		w, err := utils.OpenWriteFile(name)
		if err != nil {
			panic("harness: " + err.Error())
		}
		var alphas []int
		total := 0
		for k := range c.Alns {
			al, err := buildOriginal(&c.Alns[k])
			if err != nil {
				panic("harness: " + err.Error())
			}
			alphas = append(alphas, al.Alphabet())
			text := c02Write(al, c.Steps[k%len(c.Steps)])
			total += len(text)
			if _, err := w.WriteString(text); err != nil {
				fail("file:write-error"+c.Ext, "WriteString: %v", err)
				return
			}
			if len(text) >= 4096 {
				o.Add("probe_alignment_text_over_4096_bytes", 1)
			}
		}
		utils.CloseWriteFile(w, name)
		cl, rd, err := utils.GetReader(name)
		if err != nil {
			fail("roundtrip:parse-error:multifile"+c.Ext, "GetReader(%s): %v", name, err)
			return
		}
		ac, _, err := utils.ParseMultiAlignmentsAuto(cl, rd, c.Steps[0].Format == "phylip-strict", align.BOTH)
		if err != nil {
			fail("roundtrip:parse-error:multifile"+c.Ext, "ParseMultiAlignmentsAuto: %v", err)
			return
		}
		var got []align.Alignment
		for al := range ac.Achan {
			got = append(got, al)
		}
		if ac.Err != nil {
			fail("roundtrip:parse-error:multifile"+c.Ext, "after %d of %d alignments of a %d-byte file: %v", len(got), len(c.Alns), total, ac.Err)
			return
		}
		if len(got) != len(c.Alns) {
			fail("multi:list-differs:file"+c.Ext, "%d alignments written to %s, %d read back", len(c.Alns), name, len(got))
			return
		}
		for k := range got {
			if d := sameAlignment(&c.Alns[k], alphas[k], got[k]); d != "" {
				fail("multi:list-differs:file"+c.Ext, "alignment #%d of %d in %s: %s", k, len(got), name, d)
				return
			}
		}
		o.Add("round_trips", int64(len(got)))
		o.Add("file_ext_"+strings.TrimPrefix(c.Ext+".plain", "."), 1)
	}
	return
}

func (c *C02Case) runMulti(ctx *Ctx, o *Outcome, fail func(string, string, ...interface{})) {
	var text strings.Builder
	var origs []align.Alignment
	var alphas []int
	for k := range c.Alns {
		al, err := buildOriginal(&c.Alns[k])
		if err != nil {
			panic("harness: " + err.Error())
		}
		origs = append(origs, al)
		alphas = append(alphas, al.Alphabet())
		text.WriteString(c02Write(al, c.Steps[k%len(c.Steps)]))
	}
	data := []byte(text.String())
	strict := c.Steps[0].Format == "phylip-strict"
	if len(c.Alns) > 15 {
		o.Add("probe_more_alignments_than_channel_slots", 1)
	}
	var got []align.Alignment
	var chErr, callErr error
	var f *simFile
	format := -1
	closedSeen := false
	// the twin: the same alignments in reverse order, another stream parsed by another goroutine at the same time
	var got2 []align.Alignment
	var err2 error
	closed2 := false
	var data2 []byte
	if c.Twin {
		var t2 strings.Builder
		for k := len(origs) - 1; k >= 0; k-- {
			t2.WriteString(c02Write(origs[k], c.Steps[k%len(c.Steps)]))
		}
		data2 = []byte(t2.String())
		o.Add("multi_twin_streams", 1)
	}
	cfg := SchedCfg{Seed: c.Seed, Policy: c.Policy, Choices: c.Choices, Strict: ctx.Strict, MaxSteps: 200*(len(data)+len(data2)) + 20000}
	sr := RunSched(ctx.T, cfg, func() {
		if c.Twin {
			verifrt.Go("twin@harness", func() {
				plan2 := c.Plan
				plan2.Seed++
				f2 := newSimFile(c.maybeGz(data2), plan2)
				f2.park = func() { verifrt.Yield("read@simfile2") }
				f2.parkClose = func() { verifrt.Yield("close@simfile2") }
				rd2, err := utils.GetReaderFromReader(c.Gz, f2)
				if err != nil {
					err2 = err
					return
				}
				ac2, _, err := utils.ParseMultiAlignmentsAuto(f2, rd2, strict, align.BOTH)
				if err != nil {
					err2 = err
					return
				}
				for {
					verifrt.Yield("consume2@harness")
					al, ok := <-ac2.Achan
					if !ok {
						closed2, err2 = true, ac2.Err
						return
					}
					got2 = append(got2, al)
				}
			})
		}
		f = newSimFile(c.maybeGz(data), c.Plan)
		f.park = func() { verifrt.Yield("read@simfile") }
		f.parkClose = func() { verifrt.Yield("close@simfile") }
		rd, err := utils.GetReaderFromReader(c.Gz, f)
		if err != nil {
			callErr = err
			return
		}
		ac, fm, err := utils.ParseMultiAlignmentsAuto(f, rd, strict, align.BOTH)
		format = fm
		if err != nil {
			callErr = err
			return
		}
		for {
			verifrt.Yield("consume@harness")
			al, ok := <-ac.Achan
			if !ok {
				closedSeen = true
				chErr = ac.Err
				return
			}
			got = append(got, al)
		}
	})
	if sr.Diverged != "" {
		ctx.Diverged = sr.Diverged
		return
	}
	if c.Choices == nil {
		c.Choices = sr.Choices
	}
	o.Sig = hash64(o.Sig, sr.Hash)
	o.Add("sched_steps", int64(sr.Steps))
	o.Add("stream_reads", int64(f.reads))
	if sr.MaxEnabled >= 2 {
		o.Add("probe_parser_and_consumer_enabled_at_once", 1)
	}
	for _, p := range sr.Panics {
		if p.Exit >= 0 {
			fail("exit:"+parserFunc(p.Stack), "goalign called os.Exit while reading back what it wrote\n%s", p.Stack)
			return
		}
		fs := goalignFuncs(p.Stack)
		top := "?"
		if len(fs) > 0 {
			top = fs[0]
		}
		fail("panic:"+top, "goroutine g%d panicked: %s\n%s", p.Gid, p.Panic, p.Stack)
		return
	}
	if sr.Deadlock {
		fail("multi:hang:"+sr.BlockedFuncs(), "the stream of alignments was never closed: every goroutine is blocked after %d steps\n%s", sr.Steps, sr.Stacks)
		return
	}
	if sr.Budget {
		fail("multi:livelock", "not finished within %d scheduler steps", sr.Steps)
		return
	}
	if callErr != nil {
		fail("multi:parse-error", "ParseMultiAlignmentsAuto: %v", callErr)
		return
	}
	if format != align.FORMAT_PHYLIP {
		fail("autodetect:wrong-format:phylip", "a Phylip stream was detected as format %d", format)
		return
	}
	if !closedSeen {
		fail("multi:not-closed", "the consumer ended without seeing the channel closed")
		return
	}
	if chErr != nil {
		fail("multi:parse-error", "the channel reports %v after %d of %d alignments", chErr, len(got), len(c.Alns))
		return
	}
	if len(got) != len(c.Alns) {
		fail("multi:list-differs", "%d alignments written one after the other, %d parsed (file closed %d times, %d reads after close, closed at byte %d of %d)", len(c.Alns), len(got), f.closes, f.readsAfterClose, f.posAtClose, len(data))
		return
	}
	for k := range got {
		if d := sameAlignment(&c.Alns[k], alphas[k], got[k]); d != "" {
			fail("multi:list-differs", "alignment #%d of %d (%s): %s", k, len(got), stepName(c.Steps[k%len(c.Steps)]), d)
			return
		}
	}
	// the closer: exactly one close, after the last byte the parser needed
	if f.closes != 1 {
		fail("multi:close-count", "the underlying file was closed %d times", f.closes)
		return
	}
	if f.readsAfterClose > 0 {
		fail("multi:read-after-close", "%d reads after the file was closed (closed at byte %d of %d)", f.readsAfterClose, f.posAtClose, len(data))
		return
	}
	if c.Twin {
		if err2 != nil || !closed2 {
			fail("multi:parse-error", "the second stream, parsed at the same time: error %v, channel closed %v, after %d of %d alignments", err2, closed2, len(got2), len(c.Alns))
			return
		}
		if len(got2) != len(c.Alns) {
			fail("multi:list-differs", "second stream, parsed at the same time: %d alignments written, %d parsed", len(c.Alns), len(got2))
			return
		}
		for k := range got2 {
			j := len(c.Alns) - 1 - k
			if d := sameAlignment(&c.Alns[j], alphas[j], got2[k]); d != "" {
				fail("multi:list-differs", "second stream, parsed at the same time: alignment #%d of %d: %s", k, len(got2), d)
				return
			}
		}
		o.Add("round_trips", int64(len(got2)))
	}
	o.Add("round_trips", int64(len(got)))
	o.Add("multi_streams_exact", 1)
	o.Sample = map[string]interface{}{"mode": "multi", "alignments": len(c.Alns), "format": stepName(c.Steps[0]), "fragments": fragNames[c.Plan.Mode%nFragModes],
		"policy": policyNames[c.Policy%nPolicies], "steps": sr.Steps, "reads": f.reads, "trace_head": head(sr.Trace, 10)}
}

func (c02) Shrink(ci interface{}) []interface{} {
	c := ci.(*C02Case)
	var out []interface{}
	add := func(f func(n *C02Case) bool) {
		n := cloneCase(c02{}, c).(*C02Case)
		if f(n) {
			out = append(out, n)
		}
	}
	if c.Mode == "multi" {
		for _, ch := range shrinkChoices(c.Choices) {
			ch := ch
			add(func(n *C02Case) bool { n.Choices = ch; return true })
		}
		if len(c.Alns) > 1 {
			h := len(c.Alns) / 2
			add(func(n *C02Case) bool { n.Alns = n.Alns[:h]; n.Choices = []int{}; return true })
			add(func(n *C02Case) bool { n.Alns = n.Alns[h:]; n.Choices = []int{}; return true })
			for i := range c.Alns {
				i := i
				add(func(n *C02Case) bool { n.Alns = append(n.Alns[:i:i], n.Alns[i+1:]...); n.Choices = []int{}; return true })
			}
		}
	}
	if c.Plan.Mode != FragAll || c.Plan.ZeroReads || c.Plan.EOFWithData {
		add(func(n *C02Case) bool {
			n.Plan.Mode, n.Plan.ZeroReads, n.Plan.EOFWithData = FragAll, false, false
			n.Choices = []int{}
			return true
		})
	}
	if c.Mode == "chain" && len(c.Steps) > 1 {
		for i := range c.Steps {
			i := i
			add(func(n *C02Case) bool { n.Steps = append(n.Steps[:i:i], n.Steps[i+1:]...); return true })
		}
	}
	for k := range c.Alns {
		k := k
		a := c.Alns[k]
		if len(a.Names) > 1 {
			for i := range a.Names {
				i := i
				add(func(n *C02Case) bool {
					x := &n.Alns[k]
					x.Names = append(x.Names[:i:i], x.Names[i+1:]...)
					x.Seqs = append(x.Seqs[:i:i], x.Seqs[i+1:]...)
					n.Choices = []int{}
					return true
				})
			}
		}
		if l := len(a.Seqs[0]); l > 1 {
			for _, keep := range [][2]int{{0, l / 2}, {l / 2, l}, {0, l - 1}, {1, l}} {
				keep := keep
				add(func(n *C02Case) bool {
					x := &n.Alns[k]
					for i := range x.Seqs {
						x.Seqs[i] = x.Seqs[i][keep[0]:keep[1]]
					}
					n.Choices = []int{}
					return true
				})
			}
		}
		for i, nm := range a.Names {
			if len(nm) > 1 {
				i := i
				add(func(n *C02Case) bool {
					x := &n.Alns[k]
					cand := x.Names[i][:len(x.Names[i])/2]
					if c02Keywords[strings.ToLower(cand)] {
						return false
					}
					for _, o := range x.Names {
						if o == cand {
							return false
						}
					}
					x.Names[i] = cand
					n.Choices = []int{}
					return true
				})
			}
		}
		if len(c.Alns) > 3 {
			break // shrink the list first
		}
	}
	return out
}
