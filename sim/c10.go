package sim

import (
	"fmt"
	"math/rand"
	"runtime/debug"
	"sort"
	"strings"

	"github.com/evolbioinfo/goalign/align"
	"github.com/evolbioinfo/goalign/verifrt"
)

// C10 — Randomised operations keep invariants, reach all outcomes, replay
// from seed. The random stream is the nondeterminism source goalign itself
// puts behind one seeding point (rand.Seed in cmd/root.go); the simulator
// owns that seed and, through the seams of seamgen, the two other things that
// could make a second execution differ: map-iteration order and the clock.
// replay runs: same product seed => identical result under different map
// orders and clocks; the statement's invariants are evaluated on the result.
// support runs: on tiny alignments with distinguishable rows and columns,
// 400 product seeds per run, every admissible outcome must be seen (a missing
// one has probability < 1e-45 on correct code).

var c10Ops = []string{"shuffle-seqs", "shuffle-sites", "swap", "rogue", "bootstrap", "sample", "subalign-window", "subalign-sites", "mutate", "addgaps", "recombine", "rarefy"}

type C10Case struct {
	Kind     string    `json:"kind"` // replay | support
	Op       string    `json:"op"`
	Aln      AlnSpec   `json:"aln"`
	A        float64   `json:"a"`
	B        float64   `json:"b"`
	N        int       `json:"n"`
	Flag     bool      `json:"flag"`
	Seed     int64     `json:"seed"`
	Counts   []int     `json:"counts,omitempty"`
	countsMap map[string]int
	DupName  bool      `json:"dup_name,omitempty"` // the last row carries the name of the first (an in-place rename before the operation): rows are rows, whatever their names
	ViaCli   bool      `json:"via_cli,omitempty"` // support runs: every execution goes through the command tree (--seed s, s+1, ...)
	Sched    bool      `json:"sched,omitempty"` // replay runs: the second and third execution run under two seeded goroutine schedules (an operation may start goroutines of its own)
	MapSeeds [2]uint64 `json:"map_seeds"`
	Clocks   [2]int64  `json:"clocks"`
}

type c10 struct{}

func init() { Register(c10{}) }

func (c10) ID() string       { return "C10" }
func (c10) New() interface{} { return &C10Case{} }
func (c10) Rule() string {
	return "cli runs (1 of 12): the operation asked of the command tree in-process (cmd.RootCmd with --seed, the product's one seeding point; shuffle seqs / sites / swap / rogue / recomb, sample seqs / sites / rarefy, mutate snvs / gaps, build seqboot), executed twice with the same seed - another seeded command in between, another map order and clock the second time: every file written must be byte-identical, and the alignment printed must satisfy the statement's invariant for the operation. Replay runs (2 of 3 of the rest): one of 12 randomised operations (ShuffleSequences, ShuffleSites, Swap, SimulateRogue, BuildBootstrap, Sample, RandSubAlign window / sites, Mutate, AddGaps, Recombine, Rarefy) on a generated alignment (1-8 rows, length a multiple of 4 up to 24, nucleotide or protein, gaps) with dyadic rates at and inside the borders of their domains; the operation runs three times from the same product seed (rand.Seed) - twice under one map-iteration order and clock, once under another order and a clock one hour later - and the results must be identical; the statement's invariant for the operation is evaluated on the result. Support runs (1 of 4): a 4x4 or 5x4 alignment with pairwise distinct rows and columns, 400 product seeds, and every admissible outcome (each site bootstrapped, each row sampled / first / last after a shuffle / chosen as rogue, each window offset including the last, each column selected, each swap and recombination position, each site gapped, each letter substituted) must occur. Distinct = distinct (kind, operation, arguments, alignment shape, seed); non-trivial = at least 2 rows and 2 columns and a rate that makes the operation draw."
}

var dyadic = []float64{0, 0.25, 0.5, 0.75, 1}

func tinyAln(n, l int) AlnSpec {
	a := AlnSpec{Alphabet: align.NUCLEOTIDS}
	for i := 0; i < n; i++ {
		b := make([]byte, l)
		for k := range b {
			b[k] = "ACGT"[(i+k)%4]
		}
		if i < l {
			b[i] = "RYKM"[i%4] // makes every row and every column unique
		}
		a.Names = append(a.Names, fmt.Sprintf("t%d", i))
		a.Seqs = append(a.Seqs, string(b))
	}
	return a
}

func (c10) Gen(rs uint64, tier string, race bool) interface{} {
	r := NewRand(rs)
	c := &C10Case{Kind: "replay"}
	c.Op = c10Ops[r.Intn(len(c10Ops))]
	c.Seed = int64(r.U64() >> 1)
	c.MapSeeds = [2]uint64{r.U64(), r.U64()}
	c.Clocks[0] = 1700000000e9 + int64(r.Intn(1000000))*1e9
	c.Clocks[1] = c.Clocks[0] + 3601e9
	c.A, c.B = dyadic[r.Intn(5)], dyadic[r.Intn(5)]
	c.Flag = r.Bool()
	c.Sched = r.Chance(0.1)
	cli := r.Chance(0.08)
	if !cli && r.Chance(0.25) {
		c.Kind = "support"
		c.Aln = tinyAln(r.Pick(4, 5), 4)
		switch c.Op {
		case "sample":
			c.N = r.Range(1, 3)
		case "subalign-window", "subalign-sites":
			c.N = r.Range(1, 4)
		case "rarefy":
			// 4 draws among 7 or 9 units: every row is selected with probability >= 4/9
			c.Counts = []int{2, 1, 3, 1, 2}[:len(c.Aln.Names)]
			c.N = 4
		case "bootstrap", "rogue", "addgaps":
			c.A, c.B = r.PickS0(0.5, 1), r.PickS0(0.5, 1)
		case "swap":
			// 4 rows that differ in every column, one exchange: the first changed column is the drawn position
			c.Aln = tinyAln(4, 4)
			c.A, c.B = 0.5, -1
		case "recombine":
			// one recombination between rows that differ in every column
			c.Aln = tinyAln(4, 4)
			c.A, c.B = 0.25, r.PickS0(0.25, 0.5)
		case "mutate":
			c.A = r.PickS0(0.5, 1)
			c.B = 0
		case "shuffle-sites":
			c.A = r.PickS0(0.5, 1)
			c.B = r.PickS0(0, 0, 0.5) // with rogue rows: further sites, among those left intact, are shuffled for them
		}
		if (c.Op == "addgaps" || c.Op == "mutate" || c.Op == "swap" || c.Op == "recombine" || c.Op == "shuffle-sites") && r.Chance(0.25) {
			c.DupName = true
			return c
		}
		if c.Op != "bootstrap" && r.Chance(0.012) {
			c.ViaCli = true
			if c.Op == "shuffle-sites" && r.Bool() {
				// sequences that differ by indels only: one kind of residue per column, a gap in some of them
				k := r.Pick(4, 5)
				c.Aln = AlnSpec{Alphabet: align.NUCLEOTIDS}
				for i := 0; i < k; i++ {
					b := []byte("ACGTACGT"[:k+1])
					b[i] = '-'
					c.Aln.Names = append(c.Aln.Names, fmt.Sprintf("t%d", i))
					c.Aln.Seqs = append(c.Aln.Seqs, string(b))
				}
			}
		}
		return c
	}
	a := &c.Aln
	a.Alphabet = align.NUCLEOTIDS
	if r.Chance(0.3) {
		a.Alphabet = align.AMINOACIDS
	}
	n := 1 + r.Intn(8)
	l := 4 * (1 + r.Intn(6))
	if c.Op == "bootstrap" && r.Chance(0.25) {
		l = r.Range(1, 3) // floor(frac*L) reaches 0 (dyadic fractions: still exact)
	} else if c.Op == "bootstrap" && !cli && r.Chance(0.3) {
		// eighths of a length that is a multiple of 8: fractions that are no whole number of percent, still exact
		l = 8 * r.Range(1, 4)
		c.A = r.PickS0(0.125, 0.375, 0.625, 0.875)
	}
	for i := 0; i < n; i++ {
		a.Names = append(a.Names, fmt.Sprintf("s%d", i))
		a.Seqs = append(a.Seqs, genResidues(r, l, a.Alphabet, false, "-", 0.15))
	}
	if a.Alphabet == align.AMINOACIDS {
		s := []byte(a.Seqs[0])
		s[0] = 'E'
		a.Seqs[0] = string(s)
	}
	switch c.Op {
	case "sample":
		c.N = 1 + r.Intn(n)
	case "subalign-window", "subalign-sites":
		c.N = 1 + r.Intn(l)
		if r.Chance(0.3) {
			c.N = l
		}
	case "rarefy":
		for i := 0; i < n; i++ {
			c.Counts = append(c.Counts, 1+r.Intn(4))
		}
		tot := 0
		for _, v := range c.Counts {
			tot += v
		}
		c.N = 1 + r.Intn(tot-1+1)
		if c.N >= tot {
			c.N = tot - 1
		}
		if c.N < 1 {
			c.N = 1
			c.Counts[0]++
		}
	case "swap":
		if r.Chance(0.5) {
			c.B = -1 // random position
		}
	case "recombine":
		c.A = []float64{0, 0.25, 0.5}[r.Intn(3)]
	}
	if !cli && a.Alphabet == align.NUCLEOTIDS && r.Chance(0.1) {
		a.Alphabet = align.UNKNOWN // built through the API, the alphabet never detected
	}
	if cli {
		c.Kind = "cli"
		if r.Chance(0.15) {
			c.Seed = -c.Seed - 2 // all seeds: only -1 means "no seed" to the command line
		}
	}
	return c
}

// cliArgs: the command line that asks goalign for the operation of the case.
func (c *C10Case) cliArgs() (args []string, files map[string]string) {
	return c.cliArgsSeed(c.Seed)
}

func (c *C10Case) cliArgsSeed(seed int64) (args []string, files map[string]string) {
	var fa strings.Builder
	for i, n := range c.Aln.Names {
		fmt.Fprintf(&fa, ">%s\n%s\n", n, c.Aln.Seqs[i])
	}
	files = map[string]string{"in.fa": fa.String()}
	f := func(x float64) string { return fmt.Sprint(x) }
	switch c.Op {
	case "shuffle-seqs":
		args = []string{"shuffle", "seqs"}
	case "shuffle-sites":
		args = []string{"shuffle", "sites", "-r", f(c.A), "--rogue", f(c.B), "--rogue-file", "rogues.txt"}
		if c.Flag {
			args = append(args, "--stable-rogues")
		}
	case "swap":
		args = []string{"shuffle", "swap", "-r", f(c.A), "--pos", f(c.B)}
	case "rogue":
		args = []string{"shuffle", "rogue", "-n", f(c.A), "-l", f(c.B), "--rogue-file", "rogues.txt"}
	case "bootstrap":
		args = []string{"build", "seqboot", "-n", "3", "-o", "boot"}
		if c.A > 0 {
			args = append(args, "-f", f(c.A))
		}
		if c.Flag {
			args = append(args, "-S") // the rows of every replicate in a drawn order
		}
	case "sample":
		args = []string{"sample", "seqs", "-n", fmt.Sprint(c.N)}
	case "subalign-window":
		args = []string{"sample", "sites", "-l", fmt.Sprint(c.N)}
	case "subalign-sites":
		args = []string{"sample", "sites", "-l", fmt.Sprint(c.N), "--consecutive=false"}
	case "mutate":
		args = []string{"mutate", "snvs", "-r", f(c.A)}
	case "addgaps":
		args = []string{"mutate", "gaps", "-r", f(c.A), "-n", f(c.B)}
	case "recombine":
		args = []string{"shuffle", "recomb", "-n", f(c.A), "-l", f(c.B)}
		if c.Flag {
			args = append(args, "--swap")
		}
	case "rarefy":
		var cf strings.Builder
		for i, n := range c.Aln.Names {
			fmt.Fprintf(&cf, "%s\t%d\n", n, c.Counts[i])
		}
		files["counts.txt"] = cf.String()
		args = []string{"sample", "rarefy", "-n", fmt.Sprint(c.N), "-c", "counts.txt"}
	default:
		panic("op " + c.Op)
	}
	args = append(args, "-i", "in.fa", "-t", "1", "--seed", fmt.Sprint(seed))
	return
}

// withThreads: the same command line with another number of threads.
func withThreads(args []string, t int) []string {
	out := append([]string{}, args...)
	for i := range out {
		if out[i] == "-t" && i+1 < len(out) {
			out[i+1] = fmt.Sprint(t)
		}
	}
	return out
}

// applyCLI: the operation of the case asked of the command tree with the given seed; what it printed as an opResult.
func (c *C10Case) applyCLI(ctx *Ctx, seed int64) (res opResult, what string, ok bool) {
	if seed == -1 {
		seed = -2 // -1 means "no seed" to the command line
	}
	args, files := c.cliArgsSeed(seed)
	what = "goalign " + strings.Join(args, " ")
	a := runInProc(ctx, args, files, c.MapSeeds[0], c.Clocks[0])
	for _, p := range a.sr.Panics {
		if p.Exit < 0 {
			res.err = "panic: " + p.Panic
			return res, what, false
		}
	}
	if a.sr.Deadlock || a.sr.Budget || a.exit >= 0 || a.err != nil {
		res.err = fmt.Sprintf("exit %d, error %v, deadlock %v", a.exit, a.err, a.sr.Deadlock || a.sr.Budget)
		return res, what, false
	}
	res = c.cliResult(a)
	return res, what, true
}

func (c *C10Case) cliResult(a inprocResult) (res opResult) {
	res.names, res.seqs = parseFastaText(a.files["stdout.txt"])
	for i := range res.names {
		res.rows = append(res.rows, res.names[i]+":"+res.seqs[i])
	}
	rogues := strings.Fields(string(a.files["rogues.txt"]))
	switch c.Op {
	case "shuffle-sites":
		res.extra = strings.Join(rogues, ",")
	case "rogue":
		isR := map[string]bool{}
		for _, x := range rogues {
			isR[x] = true
		}
		var intact []string
		for _, n := range c.Aln.Names {
			if !isR[n] {
				intact = append(intact, n)
			}
		}
		res.extra = strings.Join(rogues, ",") + ";" + strings.Join(intact, ",")
	}
	return
}

// runCLIKind: the operation asked of the command tree (cmd.RootCmd, whose --seed is the product's one seeding
// point), twice with the same seed - another seeded command in between, another map order and clock the second
// time - must write the same bytes, and what it writes must satisfy the statement's invariant for the operation.
// c10Canary: what two fixed seeded substitutions (one amino-acid, one nucleotide alignment) give in this process.
// Whatever a command leaves behind in the process that a later seeded operation reads - a table reordered in
// place, a generator re-seeded - shows as a change of it.
var c10CanaryFirst string

func c10Canary() string {
	var sb strings.Builder
	for _, spec := range []struct {
		alpha int
		row   string
	}{{align.AMINOACIDS, "ARNDCQEGHILKMFPSTWYVARNDCQEGHILKMFPSTWYV"}, {align.NUCLEOTIDS, "ACGTACGTACGTACGTACGTACGTACGTACGTACGTACGT"}} {
		al := align.NewAlign(spec.alpha)
		al.AddSequence("a", spec.row, "")
		al.AddSequence("b", spec.row, "")
		rand.Seed(424242)
		al.Mutate(1)
		s0, _ := al.GetSequenceById(0)
		s1, _ := al.GetSequenceById(1)
		sb.WriteString(s0 + "/" + s1 + ";")
	}
	return sb.String()
}

func (c *C10Case) runCLIKind(ctx *Ctx, o *Outcome, fail func(string, string, ...interface{})) {
	args, files := c.cliArgs()
	if c10CanaryFirst == "" {
		c10CanaryFirst = c10Canary()
	}
	if now := c10Canary(); now != c10CanaryFirst {
		fail("replay-differs:process-state", "two fixed seeded substitutions give %q in this process now and gave %q when it started: something an earlier execution left behind changes what a seed reproduces", now, c10CanaryFirst)
		c10CanaryFirst = now
		return
	}
	defer func() {
		if now := c10Canary(); now != c10CanaryFirst && o.V == nil {
			fail("replay-differs:process-state", "goalign %s, or the command executed after it: two fixed seeded substitutions give %q in this process afterwards and gave %q before - what a seed reproduces now depends on which commands the process has executed", strings.Join(args, " "), now, c10CanaryFirst)
			c10CanaryFirst = now
		}
	}()
	a := runInProc(ctx, args, files, c.MapSeeds[0], c.Clocks[0])
	// between the two: another command in the same process - one that draws, or one of those that only read
	between := [][]string{
		{"shuffle", "sites", "-r", "1", "--seed", fmt.Sprint(c.Seed + 1)},
		{"mutate", "snvs", "-r", "0.5", "--seed", fmt.Sprint(c.Seed + 2)},
		{"compute", "pssm", "-n", "1", "-c", "0.1"},
		{"compute", "entropy"},
		{"stats"},
		{"stats", "char", "--per-sites"},
		{"consensus"},
		{"reformat", "nexus"},
		{"translate", "--phase", "1"},
		{"sort"},
	}
	bt := between[int(Mix(c.MapSeeds[0], "between")%uint64(len(between)))]
	runInProc(ctx, append(append([]string{}, bt...), "-i", "in.fa"), files, c.MapSeeds[0], c.Clocks[0])
	o.Add("cli_between_"+bt[0]+"_"+bt[1%len(bt)], 1)
	var b inprocResult
	if c.Flag || c.Op == "bootstrap" {
		// the second execution finds what the first one wrote (a re-run onto the same output names)
		bargs := args
		if c.Op == "bootstrap" {
			// ... with another number of threads: every draw is made before the work is handed out
			bargs = withThreads(args, 2+int(Mix(c.MapSeeds[1], "threads")%3))
		}
		b = runInProc(ctx, bargs, files, c.MapSeeds[1], c.Clocks[1], a.files)
		o.Add("cli_second_execution_over_the_files_of_the_first", 1)
	} else {
		b = runInProc(ctx, args, files, c.MapSeeds[1], c.Clocks[1])
	}
	o.Add("sched_steps", int64(a.sr.Steps+b.sr.Steps))
	for _, x := range []inprocResult{a, b} {
		for _, p := range x.sr.Panics {
			if p.Exit >= 0 {
				continue
			}
			fs := goalignFuncs(p.Stack)
			top := "?"
			if len(fs) > 0 {
				top = fs[0]
			}
			fail("panic:"+top, "goalign %s: goroutine g%d panicked: %s\n%s", strings.Join(args, " "), p.Gid, p.Panic, p.Stack)
			return
		}
		if x.sr.Deadlock || x.sr.Budget {
			fail("hang", "goalign %s never finished (%d steps)\n%s", strings.Join(args, " "), x.sr.Steps, x.sr.Stacks)
			return
		}
	}
	if a.exit != b.exit || (a.err == nil) != (b.err == nil) {
		fail("replay-differs:cli", "goalign %s ends with status %d / error %v the first time and status %d / error %v the second", strings.Join(args, " "), a.exit, a.err, b.exit, b.err)
		return
	}
	var fnames []string
	for n := range a.files {
		fnames = append(fnames, n)
	}
	for n := range b.files {
		if _, ok := a.files[n]; !ok {
			fnames = append(fnames, n)
		}
	}
	sort.Strings(fnames)
	for _, n := range fnames {
		if string(a.files[n]) != string(b.files[n]) {
			fail("replay-differs:cli", "goalign %s: two executions with the same --seed write different %s: %s", strings.Join(args, " "), n, firstDiff(a.files[n], b.files[n]))
			return
		}
	}
	if a.exit >= 0 || a.err != nil {
		o.Add("cli_command_failed_both_times", 1)
		return
	}
	o.Add("cli_replays_identical", 1)
	if c.Op == "bootstrap" {
		// one file per replicate: each is held to the invariant of a bootstrap sample
		for k := 0; k < 3; k++ {
			name := fmt.Sprintf("boot%d.fa", k)
			b, ok := a.files[name]
			if !ok {
				fail("invariant:missing-replicate:cli", "goalign %s succeeds and leaves no %s (files: %d)", strings.Join(args, " "), name, len(a.files))
				return
			}
			var res opResult
			res.names, res.seqs = parseFastaText(b)
			if c.Flag && len(res.names) == len(c.Aln.Names) {
				// -S: the rows come in a drawn order - a permutation of the input's; put back for the invariant
				by := map[string]string{}
				for i, nm := range res.names {
					by[nm] = res.seqs[i]
				}
				if len(by) == len(res.names) {
					var rn, rs []string
					for _, nm := range c.Aln.Names {
						if q, ok := by[nm]; ok {
							rn, rs = append(rn, nm), append(rs, q)
						}
					}
					if len(rn) == len(res.names) {
						res.names, res.seqs = rn, rs
					}
				}
			}
			for i := range res.names {
				res.rows = append(res.rows, res.names[i]+":"+res.seqs[i])
			}
			if len(res.names) == 0 {
				if f := c.A; f > 0 && f <= 1 && int(f*float64(len(c.Aln.Seqs[0]))) == 0 {
					continue // a sample of no column at all: nothing to write
				}
				fail("invariant:empty-output:cli", "goalign %s: %s holds no alignment", strings.Join(args, " "), name)
				return
			}
			if cl, msg := c.invariant(&res); cl != "" {
				fail("invariant:"+cl+":cli", "goalign %s: %s: %s\nresult: %s", strings.Join(args, " "), name, msg, res.key())
				return
			}
		}
		o.Add("cli_invariant_checked", 1)
		return
	}
	res := c.cliResult(a)
	if len(res.names) == 0 {
		fail("invariant:empty-output:cli", "goalign %s succeeds and prints no alignment", strings.Join(args, " "))
		return
	}
	if cl, msg := c.invariant(&res); cl != "" {
		fail("invariant:"+cl+":cli", "goalign %s: %s\nresult: %s", strings.Join(args, " "), msg, res.key())
		return
	}
	o.Add("cli_invariant_checked", 1)
}

// PickS0 picks one of the given floats.
func (r *Rand) PickS0(xs ...float64) float64 { return xs[r.Intn(len(xs))] }

type opResult struct {
	rows  []string // name:residues of the resulting alignment, in order
	names []string
	seqs  []string
	extra string
	err   string
	grow  string // what went wrong when the result was grown (not part of the key)
}

func (r *opResult) key() string {
	return strings.Join(r.rows, "|") + "#" + r.extra + "#" + r.err
}

func collect(al align.Alignment) (res opResult) {
	if al == nil {
		return
	}
	for i := 0; i < al.NbSequences(); i++ {
		n, _ := al.GetSequenceNameById(i)
		s, _ := al.GetSequenceById(i)
		res.names = append(res.names, n)
		res.seqs = append(res.seqs, s)
		res.rows = append(res.rows, n+":"+s)
	}
	return
}

// c10Apply seeds the product's random stream and runs the operation on a
// fresh copy of the alignment.
func (c *C10Case) apply(seed int64) (res opResult) {
	al, err := c.Aln.Build()
	if err != nil {
		panic("harness: " + err.Error())
	}
	if c.DupName && len(c.Aln.Names) >= 2 {
		al.Rename(map[string]string{c.Aln.Names[len(c.Aln.Names)-1]: c.Aln.Names[0]})
	}
	rand.Seed(seed)
	var out align.Alignment = al
	switch c.Op {
	case "shuffle-seqs":
		al.ShuffleSequences()
	case "shuffle-sites":
		rg := al.ShuffleSites(c.A, c.B, c.Flag)
		res.extra = strings.Join(rg, ",")
	case "swap":
		if err := al.Swap(c.A, c.B); err != nil {
			res.err = err.Error()
		}
	case "rogue":
		a, b := al.SimulateRogue(c.A, c.B)
		res.extra = strings.Join(a, ",") + ";" + strings.Join(b, ",")
	case "bootstrap":
		out = al.BuildBootstrap(c.A)
	case "sample":
		s, err := al.Sample(c.N)
		if err != nil {
			res.err = err.Error()
		}
		out = s
	case "subalign-window", "subalign-sites":
		s, err := al.RandSubAlign(c.N, c.Op == "subalign-window")
		if err != nil {
			res.err = err.Error()
		}
		out = s
	case "mutate":
		al.Mutate(c.A)
	case "addgaps":
		al.AddGaps(c.A, c.B)
	case "recombine":
		if err := al.Recombine(c.A, c.B, c.Flag); err != nil {
			res.err = err.Error()
		}
	case "rarefy":
		// the caller's map of counts, one object for all the executions of the run (a caller that draws several samples
		// passes the same map again)
		if c.countsMap == nil {
			c.countsMap = map[string]int{}
			for i, nm := range c.Aln.Names {
				c.countsMap[nm] = c.Counts[i]
			}
		}
		counts := c.countsMap
		s, err := al.Rarefy(c.N, counts)
		for i, nm := range c.Aln.Names {
			if counts[nm] != c.Counts[i] || len(counts) != len(c.Aln.Names) {
				res.err = fmt.Sprintf("Rarefy changed the map of counts it was given: %q is %d (of %d entries), %d (of %d) given", nm, counts[nm], len(counts), c.Counts[i], len(c.Aln.Names))
				break
			}
		}
		if err != nil {
			res.err = err.Error()
		}
		out = s
	default:
		panic("op " + c.Op)
	}
	if res.err == "" {
		r2 := collect(out)
		if c.DupName && len(r2.names) == len(c.Aln.Names) && r2.names[len(r2.names)-1] == c.Aln.Names[0] {
			// the rows are told apart by position in what follows: give the last one its own name back
			r2.names[len(r2.names)-1] = c.Aln.Names[len(c.Aln.Names)-1]
			r2.rows[len(r2.rows)-1] = r2.names[len(r2.names)-1] + ":" + r2.seqs[len(r2.seqs)-1]
		}
		res.rows, res.names, res.seqs = r2.rows, r2.names, r2.seqs
		// the result is an alignment like any other: growing it (its own columns appended once more) must leave the
		// columns it had where they were
		// ... and its rows are rows of their own: a residue written into one of them shows in that one only
		if out != nil && out.NbSequences() > 0 && out.Length() > 0 {
			for i := range r2.seqs {
				out.SetSequenceChar(i, 0, "0123456789"[i%10])
			}
			rp := collect(out)
			for i := range rp.seqs {
				if want := "0123456789"[i%10:i%10+1] + r2.seqs[i][1:]; rp.seqs[i] != want && res.grow == "" {
					res.grow = fmt.Sprintf("after one residue was written into the first site of every row of the result, row %d (%s) is %q, %q expected: rows share their storage", i, r2.names[i], rp.seqs[i], want)
				}
			}
			r2.seqs = rp.seqs
		}
		if out != nil && out.NbSequences() > 0 && res.grow == "" {
			if cl, err := out.Clone(); err == nil {
				if err := out.Concat(cl); err == nil {
					r3 := collect(out)
					for i := range r3.seqs {
						if i < len(r2.seqs) && r3.seqs[i] != r2.seqs[i]+r2.seqs[i] {
							res.grow = fmt.Sprintf("row %d (%s) is %q after the result was concatenated with a copy of itself, %q expected", i, r2.names[i], r3.seqs[i], r2.seqs[i]+r2.seqs[i])
							break
						}
					}
				}
			}
		}
	}
	return
}

func colOf(seqs []string, j int) string {
	b := make([]byte, len(seqs))
	for i, s := range seqs {
		b[i] = s[j]
	}
	return string(b)
}

func sortedBytes(s string) string {
	b := []byte(s)
	sort.Slice(b, func(i, j int) bool { return b[i] < b[j] })
	return string(b)
}

// invariant checks what the statement promises for the operation.
func (c *C10Case) invariant(res *opResult) (class, msg string) {
	on, os := c.Aln.Names, c.Aln.Seqs
	n, L := len(on), len(os[0])
	sameNames := func() bool { return strings.Join(on, ",") == strings.Join(res.names, ",") }
	rect := func() bool {
		for _, s := range res.seqs {
			if len(s) != len(res.seqs[0]) {
				return false
			}
		}
		return true
	}
	if res.err != "" {
		return "unexpected-error", "arguments inside their domain, yet: " + res.err
	}
	if !rect() {
		return "ragged-result", "rows of different lengths"
	}
	switch c.Op {
	case "shuffle-seqs":
		a := append([]string{}, res.rows...)
		var b []string
		for i := range on {
			b = append(b, on[i]+":"+os[i])
		}
		sort.Strings(a)
		sort.Strings(b)
		if strings.Join(a, "|") != strings.Join(b, "|") {
			return "not-a-row-permutation", "sequence shuffling changed the set of rows"
		}
	case "shuffle-sites", "swap":
		if !sameNames() || len(res.seqs[0]) != L {
			return "names-or-length-changed", "names, row order or length changed"
		}
		for j := 0; j < L; j++ {
			if sortedBytes(colOf(os, j)) != sortedBytes(colOf(res.seqs, j)) {
				return "column-multiset-changed", fmt.Sprintf("column %d: %q became %q", j, colOf(os, j), colOf(res.seqs, j))
			}
		}
	case "rogue":
		if !sameNames() {
			return "names-or-length-changed", "names or row order changed"
		}
		parts := strings.SplitN(res.extra, ";", 2)
		rg := map[string]bool{}
		var all []string
		for _, p := range parts {
			for _, x := range strings.Split(p, ",") {
				if x != "" {
					all = append(all, x)
				}
			}
		}
		for _, x := range strings.Split(parts[0], ",") {
			if x != "" {
				rg[x] = true
			}
		}
		sort.Strings(all)
		o2 := append([]string{}, on...)
		sort.Strings(o2)
		if strings.Join(all, ",") != strings.Join(o2, ",") {
			return "rogue-intact-not-a-partition", fmt.Sprintf("rogue;intact = %q, rows = %v", res.extra, on)
		}
		for i := range on {
			if sortedBytes(os[i]) != sortedBytes(res.seqs[i]) {
				return "row-multiset-changed", fmt.Sprintf("row %s: %q became %q", on[i], os[i], res.seqs[i])
			}
			if !rg[on[i]] && os[i] != res.seqs[i] {
				return "intact-row-changed", fmt.Sprintf("row %s is reported intact but changed", on[i])
			}
		}
	case "bootstrap":
		if !sameNames() {
			return "names-or-length-changed", "names or row order changed"
		}
		f := c.A
		if f <= 0 || f > 1 {
			f = 1
		}
		want := int(f * float64(L)) // dyadic f, L multiple of 4: exact
		if len(res.seqs[0]) != want {
			return "bootstrap-length", fmt.Sprintf("length %d, floor(%v*%d) = %d", len(res.seqs[0]), f, L, want)
		}
		orig := map[string]bool{}
		for k := 0; k < L; k++ {
			orig[colOf(os, k)] = true
		}
		for j := 0; j < want; j++ {
			if !orig[colOf(res.seqs, j)] {
				return "bootstrap-column-not-original", fmt.Sprintf("column %d (%q) is not a column of the original", j, colOf(res.seqs, j))
			}
		}
	case "sample", "rarefy":
		idx := map[string]int{}
		for i, nm := range on {
			idx[nm] = i
		}
		seen := map[string]bool{}
		last := -1
		for i, nm := range res.names {
			k, ok := idx[nm]
			if !ok || os[k] != res.seqs[i] {
				return "sampled-row-not-original", fmt.Sprintf("row %q:%q is not a row of the original", nm, res.seqs[i])
			}
			if seen[nm] {
				return "row-sampled-twice", fmt.Sprintf("row %q occurs twice", nm)
			}
			seen[nm] = true
			if c.Op == "rarefy" {
				if k < last {
					return "rarefy-order", "rows are not in the original order"
				}
				last = k
			}
		}
		if c.Op == "sample" && len(res.names) != c.N {
			return "sample-size", fmt.Sprintf("%d rows asked, %d returned", c.N, len(res.names))
		}
		if c.Op == "rarefy" && (len(res.names) < 1 || len(res.names) > c.N) {
			return "sample-size", fmt.Sprintf("%d draws, %d rows returned", c.N, len(res.names))
		}
	case "subalign-window":
		if !sameNames() || len(res.seqs[0]) != c.N {
			return "names-or-length-changed", fmt.Sprintf("names changed or length %d != %d", len(res.seqs[0]), c.N)
		}
		found := false
		for st := 0; st+c.N <= L && !found; st++ {
			ok := true
			for i := range os {
				if os[i][st:st+c.N] != res.seqs[i] {
					ok = false
					break
				}
			}
			found = ok
		}
		if !found {
			return "window-not-contiguous", "the result is not a contiguous window of the original"
		}
	case "subalign-sites":
		if !sameNames() || len(res.seqs[0]) != c.N {
			return "names-or-length-changed", fmt.Sprintf("names changed or length %d != %d", len(res.seqs[0]), c.N)
		}
		avail := map[string]int{}
		for k := 0; k < L; k++ {
			avail[colOf(os, k)]++
		}
		for j := 0; j < c.N; j++ {
			col := colOf(res.seqs, j)
			if avail[col] == 0 {
				return "columns-not-distinct-originals", fmt.Sprintf("column %d (%q) is not an original column or was drawn more often than it occurs", j, col)
			}
			avail[col]--
		}
	case "mutate":
		if !sameNames() || len(res.seqs[0]) != L {
			return "names-or-length-changed", "names, order or length changed"
		}
		letters := "ACGT"
		if c.Aln.Alphabet == align.AMINOACIDS {
			letters = aaCore
		} else if c.Aln.Alphabet == align.UNKNOWN {
			letters = "ACGT" + aaCore // no alphabet was ever detected: a letter of either
		}
		for i := range os {
			for j := 0; j < L; j++ {
				a, b := os[i][j], res.seqs[i][j]
				if a == b {
					continue
				}
				if a == '-' || a == '.' || a == '*' {
					return "gap-substituted", fmt.Sprintf("row %d column %d: %q became %q", i, j, a, b)
				}
				if strings.IndexByte(letters, b) < 0 {
					return "substituted-by-non-letter", fmt.Sprintf("row %d column %d: %q became %q", i, j, a, b)
				}
			}
		}
	case "addgaps":
		if !sameNames() || len(res.seqs[0]) != L {
			return "names-or-length-changed", "names, order or length changed"
		}
		for i := range os {
			for j := 0; j < L; j++ {
				if os[i][j] != res.seqs[i][j] && res.seqs[i][j] != '-' {
					return "residue-changed-to-non-gap", fmt.Sprintf("row %d column %d: %q became %q", i, j, os[i][j], res.seqs[i][j])
				}
			}
		}
	case "recombine":
		if !sameNames() || len(res.seqs[0]) != L {
			return "names-or-length-changed", "names, order or length changed"
		}
		for i := range os {
			for j := 0; j < L; j++ {
				if os[i][j] != res.seqs[i][j] && strings.IndexByte(colOf(os, j), res.seqs[i][j]) < 0 {
					return "residue-not-from-same-column", fmt.Sprintf("row %d column %d: %q is not in column %q", i, j, res.seqs[i][j], colOf(os, j))
				}
			}
		}
	}
	_ = n
	return "", ""
}

func (c *C10Case) describe() string {
	return fmt.Sprintf("kind=%s op=%s a=%v b=%v n=%d flag=%v seed=%d counts=%v\nalignment:\n%s", c.Kind, c.Op, c.A, c.B, c.N, c.Flag, c.Seed, c.Counts, c.Aln.String())
}

func (c10) Run(ctx *Ctx, ci interface{}) (o Outcome) {
	c := ci.(*C10Case)
	defer verifrt.SetMapSeed(0, false)
	defer verifrt.SetClock(0, false)
	o.Add("kind_"+c.Kind, 1)
	o.Add("op_"+c.Op, 1)
	n, L := len(c.Aln.Names), len(c.Aln.Seqs[0])
	o.Nontrivial = n >= 2 && L >= 2 && (c.A > 0 || c.Op == "shuffle-seqs" || c.Op == "sample" || strings.HasPrefix(c.Op, "subalign") || c.Op == "rarefy")
	o.Sig = hash64(c.Kind, c.Op, c.A, c.B, c.N, c.Flag, n, L, c.Seed)
	fail := func(class, format string, a ...interface{}) {
		o.Fail(class+":"+c.Op, format+"\n%s", append(a, c.describe())...)
	}
	defer func() {
		if p := recover(); p != nil {
			st := string(debug.Stack())
			if ep, ok := p.(verifrt.ExitPanic); ok {
				fail("exit", "goalign called os.Exit(%d) for arguments inside their domain\n%s", ep.Code, st)
				return
			}
			fs := goalignFuncs(st)
			top := "harness"
			if len(fs) > 0 {
				top = fs[0]
			}
			if top == "harness" {
				panic(p)
			}
			o.Fail("panic:"+top, "panic: %v\n%s\n%s", p, c.describe(), st)
		}
	}()
	if c.Kind == "cli" {
		c.runCLIKind(ctx, &o, fail)
		return
	}
	if c.Kind == "replay" {
		verifrt.SetMapSeed(c.MapSeeds[0], true)
		verifrt.SetClock(c.Clocks[0], true)
		r1 := c.apply(c.Seed)
		sched := func(seed uint64, policy int) (res opResult) {
			if !c.Sched {
				return c.apply(c.Seed)
			}
			sr := RunSched(ctx.T, SchedCfg{Seed: seed, Policy: policy, MaxSteps: 200000}, func() { res = c.apply(c.Seed) })
			o.Add("sched_steps", int64(sr.Steps))
			for _, p := range sr.Panics {
				panic(fmt.Sprintf("%s\n%s", p.Panic, p.Stack))
			}
			if sr.Deadlock || sr.Budget || !sr.RootDone {
				res.err = fmt.Sprintf("the operation never finished under the scheduler (deadlock=%v, %d steps)", sr.Deadlock, sr.Steps)
			}
			return
		}
		r2 := sched(c.MapSeeds[0], PolUniform)
		verifrt.SetMapSeed(c.MapSeeds[1], true)
		verifrt.SetClock(c.Clocks[1], true)
		r3 := sched(c.MapSeeds[1], PolStarve)
		o.Add("clock_reads", int64(verifrt.ClockReads()))
		if r1.key() != r2.key() {
			fail("replay-differs", "the same seed gives two results in two consecutive executions:\n%s\n%s", r1.key(), r2.key())
			return
		}
		if r1.key() != r3.key() {
			fail("replay-depends-on-map-order-or-clock", "the same seed gives another result under another map-iteration order / clock:\n%s\n%s", r1.key(), r3.key())
			return
		}
		if cl, msg := c.invariant(&r1); cl != "" {
			fail("invariant:"+cl, "%s\nresult: %s", msg, r1.key())
			return
		}
		if r1.grow != "" {
			fail("invariant:result-rows-not-independent", "%s\nresult: %s", r1.grow, r1.key())
			return
		}
		// a different seed must be able to give a different result (sanity of the seam, not a verdict)
		if o.Nontrivial {
			r4 := c.apply(c.Seed + 1)
			if r4.key() != r1.key() {
				o.Add("probe_other_seed_other_result", 1)
			}
			o.Sample = map[string]interface{}{"kind": "replay", "op": c.Op, "a": c.A, "b": c.B, "n": c.N, "rows": n, "cols": L, "seed": c.Seed, "result_head": head(r1.rows, 3)}
		}
		return
	}
	// ---- support ----
	const K = 400
	seen := map[string]map[string]bool{}
	note := func(k, v string) {
		if seen[k] == nil {
			seen[k] = map[string]bool{}
		}
		seen[k][v] = true
	}
	os := c.Aln.Seqs
	colIndex := map[string]int{}
	for k := 0; k < L; k++ {
		colIndex[colOf(os, k)] = k
	}
	for k := 0; k < K; k++ {
		var res opResult
		if c.ViaCli {
			var what string
			var ok bool
			if res, what, ok = c.applyCLI(ctx, c.Seed+int64(k)); !ok {
				fail("invariant:unexpected-error:cli:"+c.Op, "%s fails: %s", what, res.err)
				return
			}
			o.Add("support_command_line_executions", 1)
		} else {
			res = c.apply(c.Seed + int64(k))
		}
		if cl, msg := c.invariant(&res); cl != "" {
			fail("invariant:"+cl, "%s\nproduct seed %d, result: %s", msg, c.Seed+int64(k), res.key())
			return
		}
		switch c.Op {
		case "shuffle-seqs":
			for p, nm := range res.names {
				note("position of row "+nm, fmt.Sprint(p))
			}
		case "bootstrap":
			for j := range res.seqs[0] {
				note("bootstrapped site", fmt.Sprint(colIndex[colOf(res.seqs, j)]))
			}
		case "sample", "rarefy":
			for _, nm := range res.names {
				note("sampled row", nm)
			}
		case "subalign-window":
			note("window offset", fmt.Sprint(colIndex[colOf(res.seqs, 0)]))
		case "subalign-sites":
			for j := range res.seqs[0] {
				note("selected column", fmt.Sprint(colIndex[colOf(res.seqs, j)]))
			}
		case "rogue":
			for _, x := range strings.Split(strings.SplitN(res.extra, ";", 2)[0], ",") {
				if x != "" {
					note("rogue row", x)
				}
			}
		case "addgaps":
			for i := range os {
				for j := 0; j < L; j++ {
					if res.seqs[i][j] != os[i][j] {
						note("gapped site", fmt.Sprint(j))
						note("gapped row", fmt.Sprint(i))
					}
				}
			}
		case "mutate":
			for i := range os {
				for j := 0; j < L; j++ {
					if res.seqs[i][j] != os[i][j] {
						note("substituted letter", string(res.seqs[i][j]))
						note("substituted site", fmt.Sprint(j))
					}
				}
			}
		case "swap", "recombine":
			first := -1
			for j := 0; j < L && first < 0; j++ {
				for i := range os {
					if res.seqs[i][j] != os[i][j] {
						first = j
						break
					}
				}
			}
			if first >= 0 {
				note("first changed column", fmt.Sprint(first))
			}
		case "shuffle-sites":
			changed := 0
			for j := 0; j < L; j++ {
				if colOf(res.seqs, j) != colOf(os, j) {
					note("shuffled site", fmt.Sprint(j))
					changed++
				}
			}
			note("number of changed sites", fmt.Sprint(changed))
		}
	}
	rng := func(lo, hi int) []string {
		var out []string
		for i := lo; i < hi; i++ {
			out = append(out, fmt.Sprint(i))
		}
		return out
	}
	want := map[string][]string{}
	switch c.Op {
	case "shuffle-seqs":
		for _, nm := range c.Aln.Names {
			want["position of row "+nm] = rng(0, n)
		}
	case "bootstrap":
		want["bootstrapped site"] = rng(0, L)
	case "sample", "rarefy":
		want["sampled row"] = c.Aln.Names
	case "subalign-window":
		want["window offset"] = rng(0, L-c.N+1)
	case "subalign-sites":
		want["selected column"] = rng(0, L)
	case "rogue":
		if int(c.A*float64(n)) >= 1 {
			want["rogue row"] = c.Aln.Names
		}
	case "addgaps":
		// AddGaps(lenprop, prop): int(prop*n) rows, int(lenprop*L) sites each
		if int(c.B*float64(n)) >= 1 && int(c.A*float64(L)) >= 1 {
			want["gapped site"] = rng(0, L)
			want["gapped row"] = rng(0, n)
		}
	case "mutate":
		want["substituted letter"] = []string{"A", "C", "G", "T"}
		want["substituted site"] = rng(0, L)
	case "swap":
		// a random position in [0, L): every column can be the first exchanged one
		want["first changed column"] = rng(0, L)
	case "recombine":
		w := int(c.B * float64(L))
		if w >= 1 && int(c.A*float64(n)) >= 1 {
			want["first changed column"] = rng(0, L-w+1)
		}
	case "shuffle-sites":
		// with at least two rogue rows, int(rate*(1-rate)*L) sites beyond the int(rate*L) shuffled for everybody are
		// shuffled among the rogues: that many sites can change at once (rows of the tiny alignments differ in every
		// column, the first and the fifth row apart: probability > 0.2 per execution)
		if extra := int(c.A * (1 - c.A) * float64(L)); c.B > 0 && int(c.B*float64(n)) >= 2 && extra >= 1 && !c.ViaCli {
			want["number of changed sites"] = []string{fmt.Sprint(int(c.A*float64(L)) + extra)}
		}
		// every column that holds two kinds of characters
		for j := 0; j < L; j++ {
			if col := colOf(os, j); strings.Count(col, col[:1]) != len(col) {
				want["shuffled site"] = append(want["shuffled site"], fmt.Sprint(j))
			}
		}
	}
	keys := make([]string, 0, len(want))
	for k := range want {
		keys = append(keys, k)
	}
	sort.Strings(keys)
	for _, k := range keys {
		for _, v := range want[k] {
			o.Add("support_outcomes_required", 1)
			if !seen[k][v] {
				var got []string
				for x := range seen[k] {
					got = append(got, x)
				}
				sort.Strings(got)
				if c.ViaCli {
					fail("unreachable-outcome:cli", "%s = %s never occurred in 400 executions of goalign %s with different seeds (seen: %v); every required outcome has probability >= 1/5 per execution, so on correct code the probability of that is below 1e-38", k, v, strings.Join(func() []string { a, _ := c.cliArgs(); return a }(), " "), got)
					return
				}
				fail("unreachable-outcome", "%s = %s never occurred in %d executions with different seeds (seen: %v); on correct code the probability of that is below 1e-45", k, v, K, got)
				return
			}
		}
	}
	o.Add("support_product_seeds", K)
	o.Sample = map[string]interface{}{"kind": "support", "op": c.Op, "a": c.A, "b": c.B, "n": c.N, "rows": n, "cols": L, "outcomes_required": keys}
	return
}

func (c10) Shrink(ci interface{}) []interface{} {
	c := ci.(*C10Case)
	var out []interface{}
	if c.Kind == "support" {
		return out
	}
	add := func(f func(n *C10Case) bool) {
		n := cloneCase(c10{}, c).(*C10Case)
		if f(n) {
			out = append(out, n)
		}
	}
	a := c.Aln
	if len(a.Names) > 1 && c.Op != "rarefy" {
		for i := range a.Names {
			i := i
			add(func(n *C10Case) bool {
				n.Aln.Names = append(n.Aln.Names[:i:i], n.Aln.Names[i+1:]...)
				n.Aln.Seqs = append(n.Aln.Seqs[:i:i], n.Aln.Seqs[i+1:]...)
				if n.Op == "sample" && n.N > len(n.Aln.Names) {
					n.N = len(n.Aln.Names)
				}
				return true
			})
		}
	}
	if l := len(a.Seqs[0]); l > 4 {
		add(func(n *C10Case) bool {
			for i := range n.Aln.Seqs {
				n.Aln.Seqs[i] = n.Aln.Seqs[i][:l-4]
			}
			if strings.HasPrefix(n.Op, "subalign") && n.N > l-4 {
				n.N = l - 4
			}
			return true
		})
	}
	return out
}
