package sim

import (
	"bufio"
	"fmt"
	"io"
	"regexp"
	"runtime"
	"runtime/debug"
	"sort"
	"strconv"
	"strings"

	"github.com/evolbioinfo/goalign/align"
	"github.com/evolbioinfo/goalign/io/clustal"
	"github.com/evolbioinfo/goalign/io/fasta"
	"github.com/evolbioinfo/goalign/io/nexus"
	"github.com/evolbioinfo/goalign/io/partition"
	"github.com/evolbioinfo/goalign/io/phylip"
	"github.com/evolbioinfo/goalign/io/stockholm"
	"github.com/evolbioinfo/goalign/io/utils"
	"github.com/evolbioinfo/goalign/verifrt"
)

// C03 — Parsers terminate on every input with an error or a well-formed
// result. System under simulation: the real lexers and parsers reading from
// a simulated stream (simFile) that holds a valid file hit by 0-3 faults
// (truncation = torn write / crash of the producer, overwritten and flipped
// bytes = bit rot, lost / duplicated / swapped lines = lost, repeated and
// reordered write blocks, spliced tokens, rewritten header counts, a read
// error at an arbitrary offset), delivered in seeded fragments.

type C03Case struct {
	Parser   string   `json:"parser"`
	Ignore   int      `json:"ignore"`
	Alphabet int      `json:"alphabet"`
	PartLen  int      `json:"part_len"` // alignment length given to the partition parser
	Data     []byte   `json:"data"`     // the stream content after the faults
	Text     string   `json:"text"`     // Data again, readable (not used by replay)
	Plan     ReadPlan `json:"plan"`
	Faults   []string `json:"faults"` // what was done to the valid file (description; Data is authoritative)
	Origin   string   `json:"origin"`
	// Decl, when set, says that the header of a Nexus file reached the parser
	// intact (no fault before the MATRIX command and no second DIMENSIONS
	// command in the stream): a successful parse must have exactly these
	// dimensions.
	Decl      []int `json:"decl,omitempty"`
	HeaderEnd int   `json:"header_end,omitempty"`
	Enum      bool  `json:"enum,omitempty"` // part of the exhaustive sweeps
	// Sched (multi-auto only): the call, goalign's parser goroutine, the consumer and the close of the file run under
	// the seeded scheduler, and the error field is read twice: when the channel is closed, and when every goroutine
	// has finished.
	Sched     bool   `json:"sched,omitempty"`
	SchedSeed uint64 `json:"sched_seed,omitempty"`
	Policy    int    `json:"policy,omitempty"`
}

type c03 struct{}

func init() { Register(c03{}) }

func (c03) ID() string       { return "C03" }
func (c03) New() interface{} { return &C03Case{} }
func (c03) Rule() string {
	return "each run: a valid file (goalign's own writer on a generated alignment of 1-8 rows x 1-130 columns, or a corpus file with comments, TAXA/unsupported blocks, mark-up lines, CRLF line ends, several Phylip alignments, partition definitions; or a Nexus DATA block / a partition file assembled from the grammar: FORMAT options in any combination, one- and multi-byte gap / missing / match symbols, NCHAR in characters or bytes, bounds and steps around 0, the length and the largest integers) hit by 0-3 faults (truncation, structural-byte overwrite, bit flip, line loss / duplication / swap, header-number rewrite, token splice from another file, NUL / non-UTF8 byte, lone CR, read error at an offset), parsed by one of 13 parser entry points with a duplicate-name policy and a forced or automatic alphabet, delivered by the simulated stream in seeded fragments (1 byte, 2-7, per line, 4096, all, mixed; empty reads; EOF with or after the last data); one multi-auto run in ten runs the call, goalign's parser goroutine, every read and the close of the stream and the consumer under the seeded goroutine scheduler and reads the error field again once every goroutine has finished. Plus exhaustive sweeps: every prefix of every corpus file and every number token rewritten to each of 11 special values (both tiers), every structural byte at every offset (thorough). Distinct = distinct (parser, options, stream content, error offset); non-trivial = at least one fault changed the stream or a read error lies inside it, and the stream is not empty."
}

var c03Parsers = []string{"fasta", "fasta-unalign", "phylip", "phylip-strict", "phylip-multi", "phylip-strict-multi", "nexus", "clustal", "stockholm", "partition", "auto", "auto-strict", "multi-auto"}

// formatOf tells which file format a parser entry point expects ("" = any).
func c03FormatOf(parser string) string {
	switch parser {
	case "fasta", "fasta-unalign":
		return "fasta"
	case "phylip", "phylip-multi":
		return "phylip"
	case "phylip-strict", "phylip-strict-multi":
		return "phylip-strict"
	case "auto", "multi-auto":
		return "auto"
	case "auto-strict":
		return "auto-strict"
	}
	return parser
}

// ---------------------------------------------------------------------
// valid files
// ---------------------------------------------------------------------

type c03File struct {
	Format    string
	Name      string
	Content   string
	HeaderEnd int   // nexus: offset just after the MATRIX keyword line
	Decl      []int // nexus: rows, columns
	PartLen   int
}

func nexusHeaderEnd(s string) int {
	i := strings.Index(asciiLower(s), "matrix")
	if i < 0 {
		return 0
	}
	j := strings.Index(s[i:], "\n")
	if j < 0 {
		return len(s)
	}
	return i + j + 1
}

var c03CorpusCache []c03File

// c03Corpus: small hand-written files that contain what the writers never
// emit and where the token loops live.
func c03Corpus() []c03File {
	if c03CorpusCache != nil {
		return c03CorpusCache
	}
	al := align.NewAlign(align.NUCLEOTIDS)
	al.AddSequence("seq1", strings.Repeat("ACGT", 18), "")
	al.AddSequence("seq2", strings.Repeat("AC-T", 18), "")
	al.AddSequence("3", strings.Repeat("TTGT", 18), "")
	small := align.NewAlign(align.AMINOACIDS)
	small.AddSequence("a", "MKV-LE", "")
	small.AddSequence("b", "MRVWLE", "")
	nexBody := strings.TrimPrefix(nexus.WriteAlignment(al), "#NEXUS\n")
	nex1 := "#NEXUS\n[a comment]\nBEGIN TAXA;\n DIMENSIONS NTAX=3;\n TAXLABELS seq1 seq2 3;\nEND;\nBEGIN FOO;\n bar baz;\nEND;\n" + nexBody
	nex2 := "#NEXUS\nbegin data;\ndimensions ntax=2 nchar=6;\nformat datatype=protein missing=? gap=- matchchar=.;\n[comment [nested] here]\noptions foo=bar;\nmatrix\na MKV-LE\n[in matrix]\nb .R.W..\n;\nend;\nbegin trees;\ntree t = (a,b);\nend;\n"
	nex3 := "#NEXUS\nbegin characters;\ndimensions nchar=8 ntax=2;\nformat datatype=dna interleave=yes;\nmatrix\nx ACGT\ny AC-T\n\nx TTGA\ny TTGC\n;\nend;\n"
	sto1 := strings.Replace(stockholm.WriteAlignment(al), "\nseq1", "\n#=GF AU someone\nseq1", 1)
	sto2 := "# STOCKHOLM 1.0\n#=GF ID x\n\na  MKV.LE\n#=GR a SS  ..HH..\nb  MRVWLE\n#=GC SS_cons ......\n//\n"
	files := []c03File{
		{Format: "fasta", Name: "fasta-3x72", Content: fasta.WriteAlignment(al)},
		{Format: "fasta", Name: "fasta-wrapped", Content: ">a desc\nACGT\nAC-T\n\n>b\nACGTACGT\n"},
		{Format: "fasta", Name: "fasta-crlf", Content: ">a\r\nACGT\r\n>b\r\nAC-T\r\n"},
		{Format: "phylip", Name: "phylip-3x72", Content: phylip.WriteAlignment(al, false, false, false)},
		{Format: "phylip-strict", Name: "phylipS-3x72", Content: phylip.WriteAlignment(al, true, false, false)},
		{Format: "phylip", Name: "phylip-multi", Content: phylip.WriteAlignment(al, false, false, false) + phylip.WriteAlignment(small, false, true, false) + phylip.WriteAlignment(al, false, false, true)},
		{Format: "phylip-strict", Name: "phylipS-multi", Content: phylip.WriteAlignment(small, true, false, false) + phylip.WriteAlignment(al, true, false, false)},
		{Format: "phylip", Name: "phylip-crlf", Content: "2 4\r\na  ACGT\r\nb  AC-T\r\n"},
		{Format: "nexus", Name: "nexus-taxa-foo", Content: nex1},
		{Format: "nexus", Name: "nexus-format-comments-trees", Content: nex2},
		{Format: "nexus", Name: "nexus-interleaved", Content: nex3},
		{Format: "clustal", Name: "clustal-3x72", Content: clustal.WriteAlignment(al)},
		{Format: "clustal", Name: "clustal-nocount", Content: "CLUSTAL W\n\na   MKV-LE\nb   MRVWLE\n    * * **\n\na   MKV\nb   MRV\n    * *\n"},
		{Format: "stockholm", Name: "stockholm-gf", Content: sto1},
		{Format: "stockholm", Name: "stockholm-markup", Content: sto2},
		{Format: "partition", Name: "partition-1", Content: "GTR,p1=1-10,20-30\nJC,p2 = 11-19\\3, 12-19\\3,13-19\\3\nM,p3=31-80\n", PartLen: 80},
		{Format: "partition", Name: "partition-2", Content: "M1,g=1-4\nM2,h=5,6, 7-8\n", PartLen: 8},
	}
	for i := range files {
		if files[i].Format == "nexus" {
			files[i].HeaderEnd = nexusHeaderEnd(files[i].Content)
		}
	}
	files[8].Decl = []int{3, 72}
	files[9].Decl = []int{2, 6}
	files[10].Decl = []int{2, 8}
	c03CorpusCache = files
	return files
}

func writeFormat(al align.Alignment, format string, r *Rand) string {
	switch format {
	case "fasta":
		return fasta.WriteAlignment(al)
	case "phylip":
		return phylip.WriteAlignment(al, false, r.Chance(0.3), r.Chance(0.3))
	case "phylip-strict":
		return phylip.WriteAlignment(al, true, r.Chance(0.3), r.Chance(0.3))
	case "nexus":
		return nexus.WriteAlignment(al)
	case "clustal":
		return clustal.WriteAlignment(al)
	case "stockholm":
		return stockholm.WriteAlignment(al)
	}
	panic("format " + format)
}

// c03NexusGrammar assembles a DATA block from the grammar instead of the writer: FORMAT options in any
// combination, gap / missing / match symbols of one byte or of several (a dash pasted from a word processor,
// a Latin-1 byte), NCHAR counted in characters or in bytes. Not every such file is valid; what it declares is
// known, and a parser that accepts it must return what it declares.
func c03NexusGrammar(r *Rand) c03File {
	syms := []string{"-", "?", ".", "~", "N", "\u2013", "\u00e9", "\xff", "--"}
	ntax, n := r.Range(1, 4), r.Range(1, 12)
	gap, missing, match := syms[r.Intn(len(syms))], syms[r.Intn(len(syms))], syms[r.Intn(len(syms))]
	special := make([]string, n) // the same columns hold a symbol in every row (rows of equal byte length)
	aligned := r.Chance(0.6)
	for k := range special {
		if r.Chance(0.3) {
			special[k] = r.PickS(gap, gap, missing)
		}
	}
	var rows []string
	for i := 0; i < ntax; i++ {
		var sb strings.Builder
		for k := 0; k < n; k++ {
			switch {
			case aligned && special[k] != "":
				sb.WriteString(special[k])
			case !aligned && r.Chance(0.2):
				sb.WriteString(r.PickS(gap, missing))
			case i > 0 && r.Chance(0.15):
				sb.WriteString(match)
			default:
				sb.WriteByte("ACGT"[r.Intn(4)])
			}
		}
		rows = append(rows, sb.String())
	}
	nchar := n
	if r.Chance(0.5) {
		nchar = len(rows[0])
	}
	var sb strings.Builder
	// the counts as plain numbers, or with an explicit sign (an integer all the same)
	dimFmt := r.PickS("dimensions ntax=%d nchar=%d;", "dimensions ntax=%d nchar=%d;", "dimensions ntax=%d nchar=%d;", "dimensions ntax=%+d nchar=%d;", "dimensions ntax=%d nchar=%+d;", "dimensions nchar=%[2]d ntax=%[1]d;", "dimensions nchar=%+[2]d ntax=%[1]d;")
	fmt.Fprintf(&sb, "#NEXUS\nbegin %s;\n"+dimFmt+"\nformat datatype=%s", r.PickS("data", "characters"), ntax, nchar, r.PickS("dna", "nucleotide", "rna"))
	opts := []string{"missing=" + missing, "gap=" + gap, "matchchar=" + match, "interleave=" + r.PickS("yes", "no")}
	for _, k := range r.Perm(len(opts)) {
		if r.Chance(0.6) {
			sb.WriteString(" " + opts[k])
		}
	}
	sb.WriteString(";\nmatrix\n")
	for i, row := range rows {
		fmt.Fprintf(&sb, "t%d %s\n", i, row)
	}
	sb.WriteString(";\nend;\n")
	f := c03File{Format: "nexus", Name: "nexus-grammar", Content: sb.String(), Decl: []int{ntax, nchar}}
	f.HeaderEnd = nexusHeaderEnd(f.Content)
	return f
}

// c03ValidFile draws a valid file of the given format ("auto": any format the
// auto-detection knows).
func c03ValidFile(r *Rand, format string) c03File {
	strict := false
	switch format {
	case "auto":
		format = r.PickS("fasta", "phylip", "nexus", "clustal")
	case "auto-strict":
		format = r.PickS("fasta", "phylip-strict", "nexus", "clustal")
		strict = true
	}
	_ = strict
	if format == "partition" && r.Chance(0.6) {
		// partition definitions drawn from the grammar, with bounds and steps around 0, the length and the largest integers
		l := r.Pick(1, 8, 10, 80)
		nums := []string{"0", "1", "2", "3", "4", "5", fmt.Sprint(l - 1), fmt.Sprint(l), fmt.Sprint(l + 1), fmt.Sprint(l + 2), "9223372036854775807", "99999999999"}
		var sb strings.Builder
		for k := r.Range(1, 3); k > 0; k-- {
			fmt.Fprintf(&sb, "M%d,p%d=", k, r.Intn(3))
			for j := r.Range(1, 3); j > 0; j-- {
				sb.WriteString(nums[r.Intn(len(nums))])
				if r.Chance(0.8) {
					sb.WriteString("-" + nums[r.Intn(len(nums))])
				}
				if r.Chance(0.5) {
					sb.WriteString(r.PickS("/", "\\") + nums[r.Intn(len(nums))])
				}
				if j > 1 {
					sb.WriteString(r.PickS(",", ", "))
				}
			}
			sb.WriteString("\n")
		}
		return c03File{Format: "partition", Name: "partition-grammar", Content: sb.String(), PartLen: l}
	}
	if format == "nexus" && r.Chance(0.2) {
		return c03NexusGrammar(r)
	}
	if format == "partition" || r.Chance(0.45) {
		var cands []c03File
		for _, f := range c03Corpus() {
			if f.Format == format {
				cands = append(cands, f)
			}
		}
		return cands[r.Intn(len(cands))]
	}
	spec := simpleAln(r, 8, 130)
	if r.Chance(0.01) {
		// many rows (the parsers grow their tables beyond their first capacity), several blocks
		for tall := simpleAln(r, 140, 130); ; tall = simpleAln(r, 140, 130) {
			if len(tall.Names) >= 95 {
				spec = tall
				break
			}
		}
	}
	al, err := spec.Build()
	if err != nil {
		panic(err)
	}
	f := c03File{Format: format, Name: fmt.Sprintf("written-%dx%d", len(spec.Names), len(spec.Seqs[0]))}
	f.Content = writeFormat(al, format, r)
	if (format == "phylip" || format == "phylip-strict") && r.Chance(0.3) {
		// a stream of several alignments
		for k := r.Range(1, 3); k > 0; k-- {
			s2 := simpleAln(r, 4, 70)
			a2, _ := s2.Build()
			f.Content += writeFormat(a2, format, r)
		}
		f.Name += "+more"
	}
	if format == "nexus" {
		f.HeaderEnd = nexusHeaderEnd(f.Content)
		f.Decl = []int{len(spec.Names), len(spec.Seqs[0])}
	}
	return f
}

// ---------------------------------------------------------------------
// faults
// ---------------------------------------------------------------------

const c03Structural = "\n\r \t;[]>#=-0123456789,/\\*.:AaN?"

var numTokRe = regexp.MustCompile(`[0-9]+`)

// applyFault changes b by one fault of the given kind. It returns the new
// bytes, a description ("" = the fault could not be applied) and the lowest
// offset of the original content that was touched.
func applyFault(r *Rand, b []byte, kind int, donor func() string) ([]byte, string, int) {
	switch kind {
	case 0: // truncation
		if len(b) == 0 {
			return b, "", 0
		}
		c := r.Intn(len(b))
		if r.Chance(0.3) {
			// right after / before a line end or inside the last line
			if i := strings.LastIndex(string(b[:len(b)-1]), "\n"); i >= 0 && r.Bool() {
				c = i + 1 + r.Intn(len(b)-i-1)
			}
		}
		return b[:c], fmt.Sprintf("trunc@%d", c), c
	case 1: // overwrite with a structural byte
		if len(b) == 0 {
			return b, "", 0
		}
		p := r.Intn(len(b))
		ch := c03Structural[r.Intn(len(c03Structural))]
		nb := append([]byte{}, b...)
		nb[p] = ch
		return nb, fmt.Sprintf("set@%d=%q", p, ch), p
	case 2: // bit flip
		if len(b) == 0 {
			return b, "", 0
		}
		p := r.Intn(len(b))
		nb := append([]byte{}, b...)
		nb[p] ^= 1 << uint(r.Intn(8))
		return nb, fmt.Sprintf("bit@%d", p), p
	case 3, 4, 5: // delete / duplicate / swap lines
		ls := strings.SplitAfter(string(b), "\n")
		if len(ls) < 2 {
			return b, "", 0
		}
		i := r.Intn(len(ls))
		off := 0
		for k := 0; k < i; k++ {
			off += len(ls[k])
		}
		switch kind {
		case 3:
			ls = append(ls[:i:i], ls[i+1:]...)
			return []byte(strings.Join(ls, "")), fmt.Sprintf("delline%d", i), off
		case 4:
			n2 := append([]string{}, ls[:i+1]...)
			n2 = append(n2, ls[i:]...)
			return []byte(strings.Join(n2, "")), fmt.Sprintf("dupline%d", i), off
		default:
			if i+1 >= len(ls) {
				return b, "", 0
			}
			n2 := append([]string{}, ls...)
			n2[i], n2[i+1] = n2[i+1], n2[i]
			return []byte(strings.Join(n2, "")), fmt.Sprintf("swaplines%d", i), off
		}
	case 6: // rewrite a number
		locs := numTokRe.FindAllIndex(b, -1)
		if len(locs) == 0 {
			return b, "", 0
		}
		l := locs[r.Intn(len(locs))]
		if r.Chance(0.5) {
			l = locs[r.Intn(min(2, len(locs)))] // header counts come first
		}
		old, _ := strconv.Atoi(string(b[l[0]:l[1]]))
		nv := []string{"0", "1", "2", strconv.Itoa(old + 1), strconv.Itoa(max(old-1, 0)), "300", "65536", "99999999999", "-3", "9223372036854775807", "99999999999999999999", "+" + strconv.Itoa(old), "+" + strconv.Itoa(old+1)}[r.Intn(13)]
		nb := append(append(append([]byte{}, b[:l[0]]...), nv...), b[l[1]:]...)
		return nb, fmt.Sprintf("num@%d=%s", l[0], nv), l[0]
	case 7: // splice a token / a line from another valid file
		d := donor()
		if len(d) == 0 {
			return b, "", 0
		}
		var piece string
		if r.Bool() {
			ls := strings.SplitAfter(d, "\n")
			piece = ls[r.Intn(len(ls))]
		} else {
			fs := strings.Fields(d)
			if len(fs) == 0 {
				return b, "", 0
			}
			piece = fs[r.Intn(len(fs))]
			if r.Bool() {
				piece = " " + piece + " "
			}
		}
		p := r.Intn(len(b) + 1)
		nb := append(append(append([]byte{}, b[:p]...), piece...), b[p:]...)
		return nb, fmt.Sprintf("splice@%d=%q", p, piece), p
	case 8: // NUL, non-UTF8, multi-byte rune, lone CR, CRLF
		p := r.Intn(len(b) + 1)
		ins := []string{"\x00", "\xff", "é", "\r", "\r\n", " ", "\xc3"}[r.Intn(7)]
		nb := append(append(append([]byte{}, b[:p]...), ins...), b[p:]...)
		return nb, fmt.Sprintf("insert@%d=%q", p, ins), p
	case 10: // the first token of a line (a name, in most formats) blanked out
		lines := strings.SplitAfter(string(b), "\n")
		if len(lines) < 2 {
			return b, "", 0
		}
		i := r.Intn(len(lines))
		off := 0
		for _, l := range lines[:i] {
			off += len(l)
		}
		k := 0
		for k < len(lines[i]) && lines[i][k] != ' ' && lines[i][k] != '\t' && lines[i][k] != '\n' && lines[i][k] != '\r' {
			k++
		}
		if k == 0 {
			return b, "", 0
		}
		nb := append(append(append([]byte{}, b[:off]...), strings.Repeat(" ", k)...), b[off+k:]...)
		return nb, fmt.Sprintf("blankname@%d+%d", off, k), off
	case 9: // all line ends become CRLF (a legal variant of the same file)
		if !strings.Contains(string(b), "\n") || strings.Contains(string(b), "\r") {
			return b, "", 0
		}
		return []byte(strings.ReplaceAll(string(b), "\n", "\r\n")), "crlf", len(b) + 1<<30
	}
	return b, "", 0
}

var c03FaultNames = []string{"trunc", "set", "bit", "delline", "dupline", "swaplines", "num", "splice", "insert", "crlf", "readerr", "blankname"}

func faultKindOf(desc string) string {
	for _, n := range c03FaultNames {
		if strings.HasPrefix(desc, n) {
			return n
		}
	}
	return "?"
}

func (c03) Gen(rs uint64, tier string, race bool) interface{} {
	r := NewRand(rs)
	c := &C03Case{}
	c.Parser = c03Parsers[r.Intn(len(c03Parsers))]
	c.Ignore = r.Pick(align.IGNORE_NONE, align.IGNORE_NONE, align.IGNORE_NAME, align.IGNORE_SEQUENCE)
	c.Alphabet = r.Pick(align.BOTH, align.BOTH, align.NUCLEOTIDS, align.AMINOACIDS)
	if c.Parser == "multi-auto" && r.Chance(0.1) {
		c.Sched, c.SchedSeed, c.Policy = true, r.U64(), r.Pick(PolUniform, PolSticky, PolPCT, PolStarve, PolFIFO)
	}
	f := c03ValidFile(r, c03FormatOf(c.Parser))
	if r.Chance(0.03) {
		// a valid file of another format given to this parser
		f = c03ValidFile(r, r.PickS("fasta", "phylip", "nexus", "clustal", "stockholm", "partition"))
		f.Decl = nil
	}
	c.Origin = f.Name
	c.PartLen = f.PartLen
	if c.Parser == "partition" && c.PartLen == 0 {
		c.PartLen = r.Pick(1, 8, 80)
	}
	b := []byte(f.Content)
	nf := 0
	if !r.Chance(0.15) {
		nf = r.Pick(1, 1, 1, 2, 2, 3)
	}
	minTouched := 1 << 30
	donor := func() string {
		return c03ValidFile(r, r.PickS("fasta", "phylip", "nexus", "clustal", "stockholm")).Content
	}
	for k := 0; k < nf; k++ {
		kind := r.Pick(0, 0, 0, 1, 1, 1, 2, 3, 4, 5, 6, 6, 7, 8, 9, 10)
		nb, desc, off := applyFault(r, b, kind, donor)
		if desc == "" {
			continue
		}
		b = nb
		c.Faults = append(c.Faults, desc)
		if off < minTouched {
			minTouched = off
		}
		if desc == "crlf" {
			minTouched = 0 // every offset moved
		}
	}
	c.Plan = genReadPlan(r)
	if r.Chance(0.08) {
		c.Plan.ErrAt = r.Intn(len(b) + 1)
		c.Plan.ErrKind = r.Intn(2)
		c.Faults = append(c.Faults, fmt.Sprintf("readerr@%d", c.Plan.ErrAt))
	}
	c.Data = b
	c.Text = string(b)
	if f.Decl != nil && minTouched >= f.HeaderEnd && f.HeaderEnd > 0 &&
		strings.Count(strings.ToLower(string(b)), "dimensions") == strings.Count(strings.ToLower(f.Content), "dimensions") &&
		strings.Count(strings.ToLower(string(b)), "matrix") == 1 {
		c.Decl = f.Decl
		c.HeaderEnd = f.HeaderEnd
	}
	return c
}

// ---------------------------------------------------------------------
// exhaustive sweeps (Enumerator)
// ---------------------------------------------------------------------

type c03EnumItem struct {
	file   int
	parser string
	cut    int // prefix length, or -1
	pos    int // overwrite position, or -1
	ch     byte
	numAt  int    // number token to rewrite (index among the number tokens), or -1
	numVal string // its new value
}

var c03NumValues = []string{"0", "1", "2", "3", "300", "65536", "99999999999", "-3", "9223372036854775806", "9223372036854775807", "99999999999999999999"}

var c03EnumCache = map[string][]c03EnumItem{}

func c03ParsersFor(format string) []string {
	switch format {
	case "fasta":
		return []string{"fasta", "fasta-unalign", "auto"}
	case "phylip":
		return []string{"phylip", "phylip-multi", "auto"}
	case "phylip-strict":
		return []string{"phylip-strict", "phylip-strict-multi"}
	case "nexus":
		return []string{"nexus", "auto"}
	case "clustal":
		return []string{"clustal", "auto"}
	}
	return []string{format}
}

func c03EnumList(tier string) []c03EnumItem {
	if l, ok := c03EnumCache[tier]; ok {
		return l
	}
	var out []c03EnumItem
	for fi, f := range c03Corpus() {
		for _, p := range c03ParsersFor(f.Format) {
			for cut := 0; cut <= len(f.Content); cut++ {
				out = append(out, c03EnumItem{file: fi, parser: p, cut: cut, pos: -1, numAt: -1})
			}
		}
	}
	// every number token of every corpus file rewritten to every special value
	for fi, f := range c03Corpus() {
		locs := numTokRe.FindAllStringIndex(f.Content, -1)
		for _, p := range c03ParsersFor(f.Format) {
			for k := range locs {
				for _, v := range c03NumValues {
					out = append(out, c03EnumItem{file: fi, parser: p, cut: -1, pos: -1, numAt: k, numVal: v})
				}
			}
		}
	}
	if tier == "thorough" {
		for fi, f := range c03Corpus() {
			p := c03ParsersFor(f.Format)[0]
			for pos := 0; pos < len(f.Content); pos++ {
				for k := 0; k < len(c03Structural); k++ {
					if f.Content[pos] != c03Structural[k] {
						out = append(out, c03EnumItem{file: fi, parser: p, cut: -1, pos: pos, ch: c03Structural[k], numAt: -1})
					}
				}
			}
		}
	}
	c03EnumCache[tier] = out
	return out
}

func (c03) EnumCount(tier string) int { return len(c03EnumList(tier)) }

func (c03) EnumCase(tier string, i int) interface{} {
	it := c03EnumList(tier)[i]
	f := c03Corpus()[it.file]
	c := &C03Case{Parser: it.parser, Ignore: align.IGNORE_NONE, Alphabet: align.BOTH, PartLen: f.PartLen, Origin: f.Name, Enum: true}
	c.Plan = ReadPlan{Mode: []int{FragAll, FragOne, FragSmall, FragLine}[i%4], Seed: uint64(i), ErrAt: -1, EOFWithData: i%8 >= 4}
	if it.cut >= 0 {
		c.Data = []byte(f.Content[:it.cut])
		if it.cut < len(f.Content) {
			c.Faults = []string{fmt.Sprintf("trunc@%d", it.cut)}
		}
		if f.Decl != nil && it.cut >= f.HeaderEnd {
			c.Decl, c.HeaderEnd = f.Decl, f.HeaderEnd
		}
	} else if it.numAt >= 0 {
		l := numTokRe.FindAllStringIndex(f.Content, -1)[it.numAt]
		c.Data = []byte(f.Content[:l[0]] + it.numVal + f.Content[l[1]:])
		c.Faults = []string{fmt.Sprintf("num@%d=%s", l[0], it.numVal)}
		if f.Decl != nil && l[0] >= f.HeaderEnd {
			c.Decl, c.HeaderEnd = f.Decl, f.HeaderEnd
		}
	} else {
		b := []byte(f.Content)
		b[it.pos] = it.ch
		c.Data = b
		c.Faults = []string{fmt.Sprintf("set@%d=%q", it.pos, it.ch)}
		if f.Decl != nil && it.pos >= f.HeaderEnd {
			c.Decl, c.HeaderEnd = f.Decl, f.HeaderEnd
		}
	}
	c.Text = string(c.Data)
	return c
}

// ---------------------------------------------------------------------
// run + oracle
// ---------------------------------------------------------------------

type parseResult struct {
	errLate  error // multi-auto under the scheduler: the error field once every goroutine has finished
	settled  bool  // errLate was read
	als   []align.Alignment // alignments returned (nil entries allowed: reported as such)
	bag   align.SeqBag
	ps    *align.PartitionSet
	err   error
	multi bool
	eos   bool // phylip: (nil, nil)
}

func c03Parse(ctx *Ctx, c *C03Case, f *simFile) (res parseResult) {
	var r io.Reader = f
	if c.Parser == "multi-auto" && c.Sched {
		res.multi = true
		var ach *align.AlignChannel
		var callErr error
		f.park = func() { verifrt.Yield("read@simfile") }
		f.parkClose = func() { verifrt.Yield("close@simfile") }
		// a neighbour: in half of these runs another, valid, stream of three Phylip alignments is parsed by another
		// goroutine in the same schedule (a command that opens two inputs); it must come back as written whatever
		// the stream under test holds
		neighbour := c.SchedSeed%2 == 0
		const nbText = "   2   4\nn1  ACGT\nn2  AGGT\n   3   6\nm1  ACGTAC\nm2  AGGTAC\nm3  A-GTAC\n   2   10\nk1  ACGTACGTAC\nk2  ACGTACGTTT\n"
		var nbGot []string
		var nbErr error
		nbDone := false
		sr := RunSched(ctx.T, SchedCfg{Seed: c.SchedSeed, Policy: c.Policy, MaxSteps: 300000}, func() {
			if neighbour {
				verifrt.Go("neighbour@harness", func() {
					f2 := newSimFile([]byte(nbText), ReadPlan{Mode: FragSmall, Seed: c.SchedSeed, ErrAt: -1})
					f2.park = func() { verifrt.Yield("read@simfile2") }
					f2.parkClose = func() { verifrt.Yield("close@simfile2") }
					ac2, _, err := utils.ParseMultiAlignmentsAuto(f2, bufio.NewReader(f2), false, align.BOTH)
					if err != nil {
						nbErr, nbDone = err, true
						return
					}
					for al := range ac2.Achan {
						verifrt.Yield("consume2@harness")
						nbGot = append(nbGot, snapshotAlign(al))
					}
					nbErr, nbDone = ac2.Err, true
				})
			}
			ac, _, err := utils.ParseMultiAlignmentsAuto(f, bufio.NewReader(r), false, c.Alphabet)
			if err != nil {
				callErr = err
				return
			}
			for al := range ac.Achan {
				verifrt.Yield("consume@harness")
				res.als = append(res.als, al)
			}
			res.err = ac.Err // what a consumer reads when the channel is closed
			ach = ac
		})
		for _, p := range sr.Panics {
			if p.Exit >= 0 {
				panic(verifrt.ExitPanic{Code: p.Exit})
			}
			if strings.Contains(p.Panic, "readBudget") {
				panic(panicInfo{readBudget{}, p.Stack})
			}
			panic(panicInfo{p.Panic, p.Stack})
		}
		if sr.Deadlock || sr.Budget || !sr.RootDone {
			panic(panicInfo{fmt.Sprintf("the stream of alignments never ends: deadlock=%v budget=%v after %d scheduler steps", sr.Deadlock, sr.Budget, sr.Steps), "goroutine dump:\n" + sr.Stacks + "\ngithub.com/evolbioinfo/goalign/io/utils.ParseMultiAlignmentsAuto(...)\n"})
		}
		if neighbour {
			want := []string{"n=2", "n=3", "n=2"}
			ok := nbDone && nbErr == nil && len(nbGot) == 3
			for i := 0; ok && i < 3; i++ {
				ok = strings.HasPrefix(nbGot[i], want[i])
			}
			if ok {
				ok = strings.Contains(nbGot[0], "ACGT") && strings.Contains(nbGot[0], "AGGT") && strings.Contains(nbGot[1], "A-GTAC") && strings.Contains(nbGot[2], "ACGTACGTTT")
			}
			if !ok {
				panic(panicInfo{fmt.Sprintf("neighbour-stream: a valid stream of three Phylip alignments parsed by another goroutine at the same time comes back as %d alignments, error %v, finished %v: %q", len(nbGot), nbErr, nbDone, nbGot), "github.com/evolbioinfo/goalign/io/utils.ParseMultiAlignmentsAuto(neighbour)\n"})
			}
		}
		if callErr != nil {
			res.err = callErr
			return
		}
		res.errLate, res.settled = ach.Err, true
		return
	}
	switch c.Parser {
	case "fasta":
		al, err := fasta.NewParser(r).IgnoreIdentical(c.Ignore).Alphabet(c.Alphabet).Parse()
		res.als, res.err = []align.Alignment{al}, err
	case "fasta-unalign":
		res.bag, res.err = fasta.NewParser(r).IgnoreIdentical(c.Ignore).Alphabet(c.Alphabet).ParseUnalign()
	case "phylip", "phylip-strict":
		al, err := phylip.NewParser(r, c.Parser == "phylip-strict").IgnoreIdentical(c.Ignore).Alphabet(c.Alphabet).Parse()
		res.als, res.err = []align.Alignment{al}, err
		if al == nil && err == nil {
			res.eos = true
			res.als = nil
		}
	case "phylip-multi", "phylip-strict-multi":
		res.multi = true
		ac := &align.AlignChannel{Achan: make(chan align.Alignment, 4)}
		done := make(chan interface{}, 1)
		go func() {
			defer func() {
				if p := recover(); p != nil {
					done <- panicInfo{p, string(debug.Stack())}
					// the consumer below must not wait for a close that will not come
					func() {
						defer func() { recover() }()
						close(ac.Achan)
					}()
					return
				}
				done <- nil
			}()
			phylip.NewParser(r, c.Parser == "phylip-strict-multi").IgnoreIdentical(c.Ignore).Alphabet(c.Alphabet).ParseMultiple(ac)
		}()
		for al := range ac.Achan {
			res.als = append(res.als, al)
		}
		if p := <-done; p != nil {
			panic(p)
		}
		res.err = ac.Err
	case "nexus":
		al, err := nexus.NewParser(r).IgnoreIdentical(c.Ignore).Alphabet(c.Alphabet).Parse()
		res.als, res.err = []align.Alignment{al}, err
	case "clustal":
		al, err := clustal.NewParser(r).IgnoreIdentical(c.Ignore).Alphabet(c.Alphabet).Parse()
		res.als, res.err = []align.Alignment{al}, err
	case "stockholm":
		al, err := stockholm.NewParser(r).IgnoreIdentical(c.Ignore).Alphabet(c.Alphabet).Parse()
		res.als, res.err = []align.Alignment{al}, err
	case "partition":
		res.ps, res.err = partition.NewParser(r).Parse(c.PartLen)
	case "auto", "auto-strict":
		al, _, err := utils.ParseAlignmentAuto(bufio.NewReader(r), c.Parser == "auto-strict")
		res.als, res.err = []align.Alignment{al}, err
		if al == nil && err == nil {
			res.eos = true
			res.als = nil
		}
	case "multi-auto":
		res.multi = true
		// the Phylip branch parses in a goroutine of goalign's own: an
		// ExitWithMessage there cannot be recovered here, so the exit seam ends
		// that goroutine and tells the consumer
		me := verifrt.Goid()
		exited := make(chan int, 1)
		verifrt.ExitHook = func(code int) {
			if verifrt.Goid() != me {
				exited <- code
				runtime.Goexit()
			}
		}
		defer func() { verifrt.ExitHook = nil }()
		ac, _, err := utils.ParseMultiAlignmentsAuto(f, bufio.NewReader(r), false, c.Alphabet)
		if err != nil {
			res.err = err
			return
		}
	consume:
		for {
			select {
			case al, ok := <-ac.Achan:
				if !ok {
					break consume
				}
				res.als = append(res.als, al)
			case code := <-exited:
				panic(verifrt.ExitPanic{Code: code})
			}
		}
		res.err = ac.Err
	default:
		panic("unknown parser " + c.Parser)
	}
	return
}

// asciiLower lowers A-Z only and keeps every byte where it is (strings.ToLower turns an invalid byte into three).
func asciiLower(s string) string {
	b := []byte(s)
	for i, ch := range b {
		if ch >= 'A' && ch <= 'Z' {
			b[i] = ch + 32
		}
	}
	return string(b)
}

type panicInfo struct {
	val   interface{}
	stack string
}

var phylipHeaderLineRe = regexp.MustCompile(`(?m)^[ \t]*[0-9]+[ \t]+[0-9]+[ \t]*\r?$`)
var nexusDimRe = regexp.MustCompile(`^dimensions[ \t]+(ntax|nchar)[ \t]*=[ \t]*([0-9]{1,9})(?:[ \t]+(ntax|nchar)[ \t]*=[ \t]*([0-9]{1,9}))?[ \t]*;`)
var nexusBeginRe = regexp.MustCompile(`begin[ \t]+(data|characters)[ \t]*;`)

// nexusDeclared reads the counts a Nexus stream declares, in the one shape
// where there is no doubt about what the parser must have seen: a single
// block (DATA or CHARACTERS), no comment anywhere, one DIMENSIONS command
// written on one line before the one MATRIX command. -1 = not declared.
func nexusDeclared(data []byte) (ntax, nchar int, ok bool) {
	s := strings.ToLower(string(data))
	if strings.ContainsAny(s, "[]") || strings.Count(s, "dimensions") != 1 || strings.Count(s, "matrix") != 1 || strings.Count(s, "begin") != 1 {
		return
	}
	b := nexusBeginRe.FindStringIndex(s)
	d := strings.Index(s, "dimensions")
	m := strings.Index(s, "matrix")
	if b == nil || !(b[1] <= d && d < m) {
		return
	}
	// DIMENSIONS must open a command: only blanks between the previous ';' and it
	// (anything else makes it the tail of a command the parser skips)
	if t := strings.TrimRight(s[:d], " \t\n"); !strings.HasSuffix(t, ";") {
		return
	}
	g := nexusDimRe.FindStringSubmatch(s[d:])
	if g == nil || g[1] == g[3] {
		return
	}
	ntax, nchar = -1, -1
	for _, kv := range [][2]string{{g[1], g[2]}, {g[3], g[4]}} {
		v, err := strconv.Atoi(kv[1])
		if kv[0] == "" || err != nil {
			continue
		}
		if kv[0] == "ntax" {
			ntax = v
		} else {
			nchar = v
		}
	}
	return ntax, nchar, true
}

var phylipHeaderRe = regexp.MustCompile(`^[ \t\n]*([0-9]{1,9})[ \t]+([0-9]{1,9})[ \t]*\n`)

func isBlank(b []byte) bool {
	for _, ch := range b {
		if ch != ' ' && ch != '\t' && ch != '\n' && ch != '\r' {
			return false
		}
	}
	return true
}

// parserFunc: the innermost goalign parser function (not a scan helper, not
// the lexer) of a stack: the stable part of a livelock's class key.
func parserFunc(stack string) string {
	fs := goalignFuncs(stack)
	for _, f := range fs {
		if strings.Contains(f, "(*Parser)") && !strings.Contains(f, ").scan") && !strings.Contains(f, ").unscan") {
			return f
		}
	}
	if len(fs) > 0 {
		return fs[0]
	}
	return "?"
}

func wellFormed(al align.Alignment) (string, string) {
	if al == nil {
		return "nil-success", "success reported with a nil alignment"
	}
	n, l := al.NbSequences(), al.Length()
	if n < 1 || l < 1 {
		return "empty-success", fmt.Sprintf("success reported with an empty alignment: %d sequences, length %d", n, l)
	}
	seen := map[string]bool{}
	for i := 0; i < n; i++ {
		s, ok := al.GetSequenceById(i)
		nm, ok2 := al.GetSequenceNameById(i)
		if !ok || !ok2 {
			return "ragged-success", fmt.Sprintf("row %d of %d cannot be read back", i, n)
		}
		if len(s) != l {
			return "ragged-success", fmt.Sprintf("row %d (%q) has %d residues, the alignment reports length %d", i, nm, len(s), l)
		}
		if seen[nm] {
			return "duplicate-names-success", fmt.Sprintf("name %q occurs twice in the returned alignment", nm)
		}
		seen[nm] = true
	}
	return "", ""
}

func (c *C03Case) describe() string {
	t := string(c.Data)
	if len(t) > 1500 {
		t = t[:1500] + "..."
	}
	return fmt.Sprintf("parser=%s ignore=%d alphabet=%d origin=%s faults=%v plan={%s zero=%v eofwithdata=%v errat=%d}\ninput (%d bytes): %q",
		c.Parser, c.Ignore, c.Alphabet, c.Origin, c.Faults, fragNames[c.Plan.Mode%nFragModes], c.Plan.ZeroReads, c.Plan.EOFWithData, c.Plan.ErrAt, len(c.Data), t)
}

func (c03) Run(ctx *Ctx, ci interface{}) (o Outcome) {
	c := ci.(*C03Case)
	if c.Plan.ErrAt > len(c.Data) {
		c.Plan.ErrAt = len(c.Data)
	}
	f := newSimFile(c.Data, c.Plan)
	kinds := map[string]bool{}
	for _, d := range c.Faults {
		kinds[faultKindOf(d)] = true
	}
	var ks []string
	for k := range kinds {
		ks = append(ks, k)
		o.Add("fault_"+k, 1)
	}
	sort.Strings(ks)
	if len(c.Faults) == 0 {
		o.Add("fault_free_runs", 1)
	}
	o.Add("parser_"+c.Parser, 1)
	o.Add("frag_"+fragNames[c.Plan.Mode%nFragModes], 1)
	if c.Enum {
		o.Add("exhaustive_sweep_cases", 1)
	}
	o.Nontrivial = len(c.Faults) > 0 && len(c.Data) > 0
	o.Sig = hash64(c.Parser, c.Ignore, c.Alphabet, c.PartLen, string(c.Data), c.Plan.ErrAt)
	seenData := c.Data
	if c.Plan.ErrAt >= 0 && c.Plan.ErrAt < len(seenData) {
		seenData = seenData[:c.Plan.ErrAt]
	}
	// probes: where did the stream end?
	if len(c.Faults) > 0 {
		s := string(seenData)
		switch c03FormatOf(c.Parser) {
		case "nexus":
			if strings.Count(s, "[") > strings.Count(s, "]") {
				o.Add("probe_eof_inside_nexus_comment", 1)
			}
			if i := strings.Index(asciiLower(s), "matrix"); i >= 0 && !strings.Contains(s[i:], ";") {
				o.Add("probe_eof_inside_nexus_matrix", 1)
			}
		case "stockholm":
			if i := strings.LastIndex(s, "\n"); i >= 0 && strings.HasPrefix(s[i+1:], "#") {
				o.Add("probe_eof_inside_stockholm_markup", 1)
			}
		case "phylip", "phylip-strict":
			if strings.Contains(s, "\n\n") && !strings.HasSuffix(s, "\n") {
				o.Add("probe_eof_inside_phylip_later_block", 1)
			}
		case "clustal":
			if i := strings.LastIndex(s, "\n"); i >= 0 && strings.HasPrefix(s[i+1:], " ") {
				o.Add("probe_eof_inside_clustal_conservation_line", 1)
			}
		}
	}

	var res parseResult
	outcome := ""
	func() {
		defer func() {
			if p := recover(); p != nil {
				st := string(debug.Stack())
				if pi, ok := p.(panicInfo); ok {
					p, st = pi.val, pi.stack
				}
				switch x := p.(type) {
				case readBudget:
					outcome = "livelock"
					o.Fail("livelock:"+parserFunc(st), "the parser keeps reading after the end of the stream was reported %d times (a loop that waits for a token that can no longer come)\n%s\n%s", postEOFBudget, c.describe(), st)
				case verifrt.ExitPanic:
					// goalign's way of reporting an error from inside a lexer: accepted
					outcome = "exit"
					_ = x
				default:
					if msg, ok := p.(string); ok && strings.HasPrefix(msg, "neighbour-stream:") {
						outcome = "neighbour"
						o.Fail("neighbour-stream-corrupted:phylip", "%s\n%s", msg, c.describe())
						break
					}
					outcome = "panic"
					fs := goalignFuncs(st)
					top := "harness"
					if len(fs) > 0 {
						top = fs[0]
					}
					o.Fail("panic:"+top, "panic: %v\n%s\n%s", p, c.describe(), st)
				}
			}
		}()
		res = c03Parse(ctx, c, f)
	}()
	o.Add("stream_reads", int64(f.reads))
	o.Add("stream_bytes_delivered", int64(f.pos))
	if outcome != "" {
		o.Add("outcome_"+outcome, 1)
		return
	}
	fail := func(class, format string, a ...interface{}) {
		o.Fail(class+":"+c.Parser, format+"\n%s", append(a, c.describe())...)
	}
	if res.settled {
		// the verdict a consumer reads when the channel is closed is the verdict: it may neither vanish nor appear later
		o.Add("multi_auto_scheduled_runs", 1)
		if (res.err == nil) != (res.errLate == nil) {
			fail("error-field-changes-after-close", "when the channel of alignments is closed the error field says %v; once the parser goroutine has finished (file closed) it says %v", res.err, res.errLate)
			return
		}
		if !f.closed {
			o.Add("observed_file_left_open", 1)
		}
	}
	if res.err != nil {
		o.Add("outcome_error", 1)
		if !res.multi {
			return
		}
	}
	switch {
	case c.Parser == "partition":
		ps := res.ps
		if ps == nil {
			fail("nil-success", "partition parser reported success with a nil partition set")
			return
		}
		if ps.AliLength() != c.PartLen {
			fail("partition-length", "partition set over %d sites, declared length %d", ps.AliLength(), c.PartLen)
			return
		}
		np := ps.NPartitions()
		for p := -1; p <= c.PartLen; p++ {
			code := ps.Partition(p)
			if (p < 0 || p >= c.PartLen) && code != -1 {
				fail("partition-range", "site %d is outside [0,%d) but belongs to partition %d", p, c.PartLen, code)
				return
			}
			if code < -1 || code >= np {
				fail("partition-range", "site %d belongs to partition %d, there are %d", p, code, np)
				return
			}
		}
		_ = ps.String()
		o.Add("outcome_ok", 1)
	case c.Parser == "fasta-unalign":
		sb := res.bag
		if sb == nil || sb.NbSequences() < 1 {
			fail("empty-success", "success reported with an empty sequence set")
			return
		}
		seen := map[string]bool{}
		for i := 0; i < sb.NbSequences(); i++ {
			nm, _ := sb.GetSequenceNameById(i)
			s, _ := sb.GetSequenceById(i)
			if seen[nm] {
				fail("duplicate-names-success", "name %q occurs twice", nm)
				return
			}
			if len(s) == 0 {
				fail("empty-success", "sequence %q is empty", nm)
				return
			}
			seen[nm] = true
		}
		o.Add("outcome_ok", 1)
	case res.eos:
		// end-of-stream marker: only when nothing but blanks was left
		if !isBlank(seenData) {
			fail("eos-on-nonblank", "(nil, nil) - the end-of-stream marker - returned although the stream holds more than blanks")
			return
		}
		o.Add("outcome_end_of_stream", 1)
	default:
		if !res.multi && len(res.als) != 1 {
			panic("harness: one alignment expected")
		}
		if res.multi && res.err == nil && len(res.als) == 0 && !isBlank(seenData) && c.Parser != "multi-auto" {
			// ParseMultiple: no alignment and no error = empty stream
			fail("eos-on-nonblank", "no alignment and no error although the stream holds more than blanks")
			return
		}
		// a stream of Phylip alignments that was only cut short (or whose reader failed): every header line that was
		// delivered announces an alignment; fewer alignments and no error is a silent loss
		if res.multi && res.err == nil && strings.HasPrefix(c03FormatOf(c.Parser), "phylip") {
			only := true
			for _, f := range c.Faults {
				only = only && (strings.HasPrefix(f, "trunc@") || strings.HasPrefix(f, "readerr@"))
			}
			if only && strings.HasPrefix(c.Origin, "written-") {
				nh := len(phylipHeaderLineRe.FindAll(seenData, -1))
				o.Add("multi_streams_header_lines_counted", 1)
				if nh > len(res.als) {
					fail("silent-loss", "%d header lines reached the parser, %d alignments came back and no error", nh, len(res.als))
					return
				}
			}
		}
		for k, al := range res.als {
			if cl, msg := wellFormed(al); cl != "" {
				fail(cl, "alignment #%d: %s", k, msg)
				return
			}
		}
		if len(res.als) > 0 {
			al := res.als[0]
			switch c03FormatOf(c.Parser) {
			case "phylip", "phylip-strict":
				if m := phylipHeaderRe.FindSubmatch(seenData); m != nil {
					hn, _ := strconv.Atoi(string(m[1]))
					hl, _ := strconv.Atoi(string(m[2]))
					o.Add("header_counts_checked", 1)
					if al.Length() != hl || al.NbSequences() > hn || (c.Ignore == align.IGNORE_NONE && al.NbSequences() != hn) {
						fail("header-mismatch", "the header declares %d sequences of length %d, the returned alignment has %d of length %d", hn, hl, al.NbSequences(), al.Length())
						return
					}
				}
			case "nexus":
				if nt, nc, ok := nexusDeclared(seenData); ok && c.Decl == nil {
					o.Add("header_counts_checked", 1)
					if (nt >= 0 && al.NbSequences() != nt) || (nc >= 0 && al.Length() != nc) {
						fail("header-mismatch", "the DIMENSIONS command declares ntax=%d nchar=%d (-1 = not declared), the returned alignment has %d sequences of length %d", nt, nc, al.NbSequences(), al.Length())
						return
					}
				}
				if c.Decl != nil {
					o.Add("header_counts_checked", 1)
					if al.NbSequences() != c.Decl[0] || al.Length() != c.Decl[1] {
						fail("header-mismatch", "the intact header declares ntax=%d nchar=%d, the returned alignment has %d sequences of length %d", c.Decl[0], c.Decl[1], al.NbSequences(), al.Length())
						return
					}
				}
			}
		}
		if res.err == nil {
			o.Add("outcome_ok", 1)
		}
		if res.multi {
			o.Add("alignments_from_multi_streams", int64(len(res.als)))
		}
	}
	if c.Enum || len(c.Faults) > 0 {
		o.Sample = map[string]interface{}{"parser": c.Parser, "origin": c.Origin, "faults": c.Faults, "fragments": fragNames[c.Plan.Mode%nFragModes], "bytes": len(c.Data), "reads": f.reads}
	}
	return
}

// ---------------------------------------------------------------------
// shrinking: simpler delivery first, then fewer bytes
// ---------------------------------------------------------------------

func (c03) Shrink(ci interface{}) []interface{} {
	c := ci.(*C03Case)
	var out []interface{}
	add := func(f func(n *C03Case) bool) {
		n := cloneCase(c03{}, c).(*C03Case)
		if f(n) {
			n.Text = string(n.Data)
			out = append(out, n)
		}
	}
	if c.Plan.Mode != FragAll || c.Plan.ZeroReads || c.Plan.EOFWithData {
		add(func(n *C03Case) bool {
			n.Plan.Mode, n.Plan.ZeroReads, n.Plan.EOFWithData = FragAll, false, false
			return true
		})
	}
	if c.Plan.ErrAt >= 0 {
		add(func(n *C03Case) bool { n.Plan.ErrAt = -1; return true })
		add(func(n *C03Case) bool { n.Data = n.Data[:min(n.Plan.ErrAt, len(n.Data))]; n.Plan.ErrAt = -1; return true })
	}
	if c.Ignore != align.IGNORE_NONE {
		add(func(n *C03Case) bool { n.Ignore = align.IGNORE_NONE; return true })
	}
	if c.Alphabet != align.BOTH {
		add(func(n *C03Case) bool { n.Alphabet = align.BOTH; return true })
	}
	lo := 0
	if c.Decl != nil {
		lo = c.HeaderEnd // keep the intact header intact
	}
	nd := len(c.Data)
	cut := func(a, b int) {
		if a < lo || a >= b || b > nd {
			return
		}
		add(func(n *C03Case) bool {
			n.Data = append(append([]byte{}, n.Data[:a]...), n.Data[b:]...)
			if n.Plan.ErrAt > a {
				n.Plan.ErrAt = max(a, n.Plan.ErrAt-(b-a))
			}
			return true
		})
	}
	// halves, quarters, eighths
	for parts := 2; parts <= 8 && nd-lo >= parts; parts *= 2 {
		sz := (nd - lo + parts - 1) / parts
		for a := lo; a < nd; a += sz {
			cut(a, min(a+sz, nd))
		}
	}
	// lines
	if nd-lo <= 4000 {
		a := lo
		nl := 0
		for i := lo; i < nd && nl < 60; i++ {
			if c.Data[i] == '\n' {
				cut(a, i+1)
				a = i + 1
				nl++
			}
		}
	}
	// single bytes (small inputs only)
	if nd-lo <= 120 {
		for i := nd - 1; i >= lo; i-- {
			cut(i, i+1)
		}
	}
	return out
}
