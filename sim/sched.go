package sim

import (
	"fmt"
	"regexp"
	"runtime"
	"sort"
	"strings"
	"testing"
	"testing/synctest"

	"github.com/evolbioinfo/goalign/verifrt"
)

// E1: seeded goroutine scheduler.
//
// Every goroutine goalign starts (rewritten `go` statements) and the root
// goroutine that calls the function under test are "owned": they park at the
// yield points seamgen inserted (before send/close/Lock/Wait/Done, after a
// receive, before their first instruction) and proceed only when this loop
// releases them. testing/synctest tells the loop when everything it has not
// released is parked, durably blocked or gone; the choice of who runs next
// is the loop's, taken from the recorded choice list or from the run's PRNG.

const (
	PolUniform = iota // uniform over the enabled goroutines
	PolSticky         // keep releasing the goroutine released last (p=0.8)
	PolPCT            // random priorities with a few priority change points
	PolStarve         // one victim goroutine runs only when nothing else can
	PolFIFO           // lowest logical goroutine id first (the reference schedule)
	nPolicies
)

var policyNames = []string{"uniform", "sticky", "pct", "starve", "fifo"}

type SchedCfg struct {
	Seed     uint64 // PRNG for choices when Choices == nil
	Policy   int
	Choices  []int // recorded picks (index into the enabled list), nil = record
	Strict   bool  // recorded picks must be in range, else Diverged
	MaxSteps int
}

type SchedResult struct {
	Choices    []int
	Trace      []string // "g<id>@<site>" per step
	Steps      int
	Deadlock   bool
	Stacks     string // goroutine dump at deadlock (goalign frames only)
	Budget     bool   // step budget exhausted
	Diverged   string
	Panics     []verifrt.Event
	RootDone   bool
	Leaked     int // owned goroutines still blocked after the call returned and everything runnable ran
	WindDown   int
	Hash       uint64
	MaxEnabled int
	Goroutines int
	Unowned    int
}

// BlockedAt extracts, from a deadlock dump, the goalign source positions the
// blocked goroutines sit at, e.g. "distance/dna/distance.go:221".
func (r *SchedResult) BlockedAt() []string {
	var out []string
	seen := map[string]bool{}
	for _, m := range frameRe.FindAllStringSubmatch(r.Stacks, -1) {
		if !seen[m[1]] {
			seen[m[1]] = true
			out = append(out, m[1])
		}
	}
	sort.Strings(out)
	return out
}

// BlockedFuncs names the innermost goalign function of every blocked
// goroutine in the dump, sorted and de-duplicated: the stable part of a
// deadlock's class key.
func (r *SchedResult) BlockedFuncs() string {
	seen := map[string]bool{}
	var out []string
	for _, g := range strings.Split(r.Stacks, "\n\n") {
		if fs := goalignFuncs(g); len(fs) > 0 && !seen[fs[0]] {
			seen[fs[0]] = true
			out = append(out, fs[0])
		}
	}
	sort.Strings(out)
	return strings.Join(out, ",")
}

var frameRe = regexp.MustCompile(`/repo/([^\s:]+\.go:\d+)`)
var funcRe = regexp.MustCompile(`github\.com/evolbioinfo/goalign/([^\s(]+(?:\([^)]*\))?[^\s(]*)\(`)

// goalignFuncs lists the goalign functions (short form, e.g.
// "distance/dna.DistMatrix.func2") appearing in a stack text, innermost first.
func goalignFuncs(stack string) []string {
	var out []string
	for _, line := range strings.Split(stack, "\n") {
		line = strings.TrimSpace(line)
		if !strings.HasPrefix(line, "github.com/evolbioinfo/goalign/") {
			continue
		}
		f := strings.TrimPrefix(line, "github.com/evolbioinfo/goalign/")
		if i := strings.LastIndex(f, "("); i > 0 {
			f = f[:i]
		}
		if strings.HasPrefix(f, "verifrt.") {
			continue
		}
		out = append(out, f)
	}
	return out
}

type parked struct {
	ev verifrt.Event
}

// RunSched runs root as owned goroutine 0 under the seeded scheduler.
// It returns when root has returned, on deadlock, or when the step budget
// is exhausted.
func RunSched(t *testing.T, cfg SchedCfg, root func()) (res SchedResult) {
	if cfg.MaxSteps == 0 {
		cfg.MaxSteps = 200000
	}
	// synctest.Test calls t.FailNow (runtime.Goexit) on the calling goroutine
	// when the bubble's T was marked failed - which the testing package does
	// by itself as soon as the race detector has reported anything. The call
	// therefore lives in a goroutine of its own whose exit we survive.
	var unexpected interface{}
	fin := make(chan struct{})
	go func() {
		defer close(fin)
		defer func() {
			if r := recover(); r != nil {
				// synctest panics when the bubble ends with blocked goroutines:
				// expected exactly when we already decided deadlock / budget / leak.
				if res.Deadlock || res.Budget || res.Diverged != "" || res.Leaked > 0 {
					return
				}
				unexpected = r
			}
		}()
		runBubble(t, cfg, root, &res)
	}()
	<-fin
	if unexpected != nil {
		panic(unexpected)
	}
	return
}

func runBubble(t *testing.T, cfg SchedCfg, root func(), resp *SchedResult) {
	synctest.Test(t, func(t *testing.T) {
		res := resp
		rng := NewRand(cfg.Seed)
		c := verifrt.NewController()
		verifrt.Install(c)
		defer verifrt.Uninstall()
		c.Spawn("root", root)
		var pk []verifrt.Event
		live := map[int]bool{}
		h := uint64(1469598103934665603)
		last := -1
		// PCT state
		prio := map[int]int{}
		var changeAt map[int]bool
		victim := -1
		ci := 0
		for {
			verifrt.RaceOff()
			synctest.Wait()
		drain:
			for {
				select {
				case ev := <-c.Arrive:
					switch ev.Kind {
					case verifrt.EvYield:
						pk = append(pk, ev)
						if ev.Start {
							live[ev.Gid] = true
							res.Goroutines++
						}
					case verifrt.EvExit:
						delete(live, ev.Gid)
						if ev.Gid == 0 {
							res.RootDone = true
						}
					case verifrt.EvPanic:
						delete(live, ev.Gid)
						res.Panics = append(res.Panics, ev)
						if ev.Gid == 0 {
							res.RootDone = true
						}
					}
				default:
					break drain
				}
			}
			verifrt.RaceOn()
			if len(pk) == 0 {
				if res.RootDone {
					// wind-down finished; owned goroutines still alive are blocked for good
					if len(live) > 0 {
						res.Leaked = len(live)
						buf := make([]byte, 1<<20)
						n := runtime.Stack(buf, true)
						res.Stacks = filterStacks(string(buf[:n]))
					}
					break
				}
				res.Deadlock = true
				buf := make([]byte, 1<<20)
				n := runtime.Stack(buf, true)
				res.Stacks = filterStacks(string(buf[:n]))
				break
			}
			if res.RootDone {
				// wind-down: let the goroutines that outlive the call finish, FIFO, unrecorded
				sort.Slice(pk, func(a, b int) bool { return pk[a].Gid < pk[b].Gid })
				ev := pk[0]
				pk = pk[1:]
				res.WindDown++
				if res.WindDown > cfg.MaxSteps {
					res.Budget = true
					break
				}
				verifrt.RaceOff()
				ev.Release <- struct{}{}
				verifrt.RaceOn()
				continue
			}
			if res.Steps >= cfg.MaxSteps {
				res.Budget = true
				break
			}
			sort.Slice(pk, func(a, b int) bool { return pk[a].Gid < pk[b].Gid })
			if len(pk) > res.MaxEnabled {
				res.MaxEnabled = len(pk)
			}
			pick := 0
			if cfg.Choices != nil {
				if ci < len(cfg.Choices) {
					pick = cfg.Choices[ci]
					if pick < 0 || pick >= len(pk) {
						if cfg.Strict {
							res.Diverged = fmt.Sprintf("step %d: recorded pick %d but %d enabled", ci, pick, len(pk))
							break
						}
						if pick < 0 {
							pick = 0
						}
						pick %= len(pk)
					}
				} else if cfg.Strict && len(pk) > 1 {
					// past the end of a recorded list: FIFO; only legal when shrunk
					pick = 0
				}
				ci++
			} else {
				switch cfg.Policy {
				case PolUniform:
					pick = rng.Intn(len(pk))
				case PolSticky:
					pick = rng.Intn(len(pk))
					if rng.Chance(0.8) {
						for k := range pk {
							if pk[k].Gid == last {
								pick = k
							}
						}
					}
				case PolPCT:
					if changeAt == nil {
						changeAt = map[int]bool{}
						for k := 0; k < 3; k++ {
							changeAt[rng.Intn(400)] = true
						}
					}
					best := -1
					for k := range pk {
						if _, ok := prio[pk[k].Gid]; !ok {
							prio[pk[k].Gid] = 1000 + rng.Intn(1000000)
						}
						if best < 0 || prio[pk[k].Gid] > prio[pk[best].Gid] {
							best = k
						}
					}
					pick = best
					if changeAt[res.Steps] {
						prio[pk[best].Gid] = rng.Intn(1000) // drop below everyone
					}
				case PolStarve:
					if victim < 0 {
						victim = rng.Intn(4) // one of the first goroutines (root, producer, first workers)
					}
					var cand []int
					for k := range pk {
						if pk[k].Gid != victim {
							cand = append(cand, k)
						}
					}
					if len(cand) == 0 {
						pick = 0
					} else {
						pick = cand[rng.Intn(len(cand))]
					}
				case PolFIFO:
					pick = 0
				}
			}
			ev := pk[pick]
			pk = append(pk[:pick], pk[pick+1:]...)
			res.Choices = append(res.Choices, pick)
			res.Trace = append(res.Trace, fmt.Sprintf("g%d@%s", ev.Gid, ev.Site))
			res.Steps++
			h = (h ^ uint64(ev.Gid+1)) * 1099511628211
			h = (h ^ hashStr(ev.Site)) * 1099511628211
			last = ev.Gid
			verifrt.RaceOff()
			ev.Release <- struct{}{}
			verifrt.RaceOn()
		}
		res.Hash = h
		res.Unowned = c.Unowned
	})
}

func hashStr(s string) uint64 {
	h := uint64(14695981039346656037)
	for i := 0; i < len(s); i++ {
		h ^= uint64(s[i])
		h *= 1099511628211
	}
	return h
}

var bubbleRe = regexp.MustCompile(`synctest bubble (\d+)`)

// filterStacks keeps, of a full goroutine dump, the goroutines of the
// current bubble (the caller's, first in the dump) that have a goalign
// frame, and of those only header + goalign frames.
func filterStacks(dump string) string {
	var out []string
	bubble := ""
	if m := bubbleRe.FindStringSubmatch(strings.SplitN(dump, "\n", 2)[0]); m != nil {
		bubble = m[0]
	}
	for _, g := range strings.Split(dump, "\n\n") {
		if !strings.Contains(g, "github.com/evolbioinfo/goalign/") {
			continue
		}
		if bubble != "" && !strings.Contains(strings.SplitN(g, "\n", 2)[0], bubble+"]") {
			continue
		}
		lines := strings.Split(g, "\n")
		keep := []string{lines[0]}
		for i := 1; i < len(lines); i++ {
			if strings.HasPrefix(lines[i], "github.com/evolbioinfo/goalign/") && !strings.HasPrefix(lines[i], "github.com/evolbioinfo/goalign/verifrt.") {
				keep = append(keep, lines[i])
				if i+1 < len(lines) {
					keep = append(keep, lines[i+1])
				}
			}
		}
		if len(keep) > 1 {
			out = append(out, strings.Join(keep, "\n"))
		}
	}
	return strings.Join(out, "\n\n")
}

// shrinkChoices proposes simpler schedules: all-FIFO, truncated tails
// (FIFO afterwards) and single picks set to 0.
func shrinkChoices(ch []int) [][]int {
	var out [][]int
	nz := 0
	for _, c := range ch {
		if c != 0 {
			nz++
		}
	}
	if nz == 0 {
		if len(ch) > 0 {
			out = append(out, []int{})
		}
		return out
	}
	out = append(out, []int{})
	for cut := len(ch) / 2; cut >= 1; cut /= 2 {
		out = append(out, append([]int{}, ch[:len(ch)-cut]...))
	}
	// drop the trailing zeros
	e := len(ch)
	for e > 0 && ch[e-1] == 0 {
		e--
	}
	if e < len(ch) {
		out = append(out, append([]int{}, ch[:e]...))
	}
	cnt := 0
	for i := len(ch) - 1; i >= 0 && cnt < 40; i-- {
		if ch[i] != 0 {
			c2 := append([]int{}, ch...)
			c2[i] = 0
			out = append(out, c2)
			cnt++
		}
	}
	return out
}
