package sim

import (
	"bytes"
	"compress/gzip"
	"fmt"
	"io"
	"math"
	"strconv"
	"strings"
	"sync"

	"github.com/evolbioinfo/goalign/align"
	"github.com/evolbioinfo/goalign/distance/dna"
	"github.com/evolbioinfo/goalign/verifrt"
)

// C08 — Distances depend only on column content, not on order, strand or
// threads. System under simulation: the real dna.DistMatrix with its real
// producer/worker goroutines, mutex, WaitGroup and the real estimators.
// Simulator-controlled: which goroutine proceeds at every synchronisation
// operation (E1), worker count, and a caller-supplied model (the public
// dna.DistModel interface) whose k-th Distance / Sequence call fails.

type C08Case struct {
	Seed     uint64    `json:"seed"`
	Rows     []string  `json:"rows"`
	Model    string    `json:"model"`
	RmGaps   bool      `json:"rmgaps"`
	Gamma    bool      `json:"gamma"`
	Alpha    float64   `json:"alpha"`
	GapMut   int       `json:"gapmut"`
	RmAmbig  bool      `json:"rmambig"`
	Weights  []float64 `json:"weights"`
	Ranges   []int     `json:"ranges"`
	Cpus     int       `json:"cpus"`
	FailDist []int     `json:"fail_dist"` // the k-th Distance call (1-based, in simulated call order) fails
	FailSeq  []int     `json:"fail_seq"`  // the k-th Sequence call fails
	Policy   int       `json:"policy"`
	// Relation: a second presentation of the same data is computed under a
	// different schedule and thread count and compared.
	Relation string `json:"relation"`
	RelK     int    `json:"rel_k"`
	RelPerm  []int  `json:"rel_perm"`
	RelCpus  int    `json:"rel_cpus"`
	Reuse    bool   `json:"reuse_model,omitempty"` // the transformed presentation is computed by the model object that served for the run under test (one object per process in compute distance / build distboot)
	served   dna.DistModel
	RunFirst bool   `json:"run_first,omitempty"` // the run under test comes before the one-worker reference (a process that has computed nothing yet starts with several workers)
	RelPol   int    `json:"rel_policy"`
	Cli      string `json:"cli,omitempty"` // "", or the kind of output file ("plain", ".gz", "stdout") of `goalign compute distance` executed with the options of the case
	Choices  []int  `json:"choices"`
	RelCh    []int  `json:"rel_choices"`
}

type c08 struct{}

func init() { Register(c08{}) }

func (c08) ID() string       { return "C08" }
func (c08) New() interface{} { return &C08Case{} }
func (c08) Rule() string {
	return "each run: generated nucleotide alignment (2-17 rows x 1-60 columns, IUPAC codes, gaps, identical and saturated pairs), one of 7 models with options, 1-32 workers, a scheduling policy and a seeded choice at every synchronisation operation of the real DistMatrix goroutines; half of the runs inject a failing k-th Distance/Sequence call through the public DistModel interface; fault-free runs also compute a transformed presentation (column/row permutation, replication, integer weights, unit weights, reverse complement) under a different schedule, in 4 cases of 10 with the model object that already served for the run under test; 6 % of the alignments carry a residue outside the distance code (a refusal must not depend on workers, schedule or presentation); in half of the runs the run under test precedes the 1-worker reference; each tier ends with cold runs, one process per run. Distinct = distinct hash of the released (goroutine, site) sequence; non-trivial = at least 2 workers and at least 3 pairs. One fault-free run in ten without weights is followed by `goalign compute distance` executed through the command tree in the same process with the model, options, ranges and thread count of the case (output to a plain file, a .gz file or stdout): what it prints must be the matrix of the library call, row names and twelve decimals."
}

var dnaModels = []string{"jc", "k2p", "pdist", "rawdist", "f81", "f84", "tn93"}

const ntCore = "ACGT"
const ntAmbig = "RYSWKMBDHVN"

func genNtRows(r *Rand, n, l int) []string {
	base := make([]byte, l)
	for k := range base {
		base[k] = ntCore[r.Intn(4)]
	}
	div := []float64{0, 0.05, 0.2, 0.5, 0.9}[r.Intn(5)]
	pamb := []float64{0, 0, 0.05, 0.2}[r.Intn(4)]
	pgap := []float64{0, 0, 0.1, 0.3}[r.Intn(4)]
	lower := r.Chance(0.15)
	rows := make([]string, n)
	for i := 0; i < n; i++ {
		s := make([]byte, l)
		copy(s, base)
		for k := range s {
			if r.Chance(div) {
				s[k] = ntCore[r.Intn(4)]
			}
			if r.Chance(pamb) {
				s[k] = ntAmbig[r.Intn(len(ntAmbig))]
			}
			if r.Chance(pgap) {
				s[k] = '-'
			}
		}
		// gap runs at the ends and inside
		if pgap > 0 && r.Chance(0.4) {
			a := r.Intn(l + 1)
			b := a + r.Intn(l-a+1)
			if r.Chance(0.5) {
				a = 0
			} else if r.Chance(0.5) {
				b = l
			}
			for k := a; k < b; k++ {
				s[k] = '-'
			}
		}
		if lower {
			for k := range s {
				if r.Chance(0.3) {
					s[k] = strings.ToLower(string(s[k]))[0]
				}
			}
		}
		rows[i] = string(s)
	}
	// identical pair / saturated pair on purpose
	if n >= 2 && r.Chance(0.3) {
		rows[r.Intn(n)] = rows[r.Intn(n)]
	}
	if n >= 2 && r.Chance(0.3) {
		a, b := r.Intn(n), r.Intn(n)
		if a != b {
			s := []byte(rows[a])
			for k := range s {
				switch rows[b][k] {
				case 'A', 'a':
					s[k] = 'C'
				case 'C', 'c':
					s[k] = 'A'
				case 'G', 'g':
					s[k] = 'T'
				default:
					s[k] = 'G'
				}
			}
			rows[a] = string(s)
		}
	}
	// an all-gap column now and then
	if r.Chance(0.1) {
		k := r.Intn(l)
		for i := range rows {
			s := []byte(rows[i])
			s[k] = '-'
			rows[i] = string(s)
		}
	}
	return rows
}

func (c08) Gen(rs uint64, tier string, race bool) interface{} {
	r := NewRand(rs)
	c := &C08Case{Seed: r.U64()}
	n := r.Range(2, 9)
	if r.Chance(0.1) {
		n = r.Range(10, 12)
	}
	big := r.Chance(0.05) // more pairs than the 100-slot channel holds
	if big {
		n = r.Range(15, 17)
	}
	l := r.Range(1, 60)
	if r.Chance(0.2) {
		l = r.Range(1, 4)
	}
	if race && n > 11 {
		n = 11 // keep the detector's shadow history within reach (66 pairs)
		big = false
	}
	c.Rows = genNtRows(r, n, l)
	if r.Chance(0.06) {
		// a residue the distance code may have no symbol for, somewhere in the alignment
		ri := r.Intn(n)
		b := []byte(c.Rows[ri])
		b[r.Intn(l)] = "U?O*"[r.Intn(4)]
		c.Rows[ri] = string(b)
	}
	c.Model = dnaModels[r.Intn(len(dnaModels))]
	c.RmGaps = r.Chance(0.3)
	c.Gamma = r.Chance(0.3)
	c.Alpha = []float64{0.1, 0.5, 1, 2, 10}[r.Intn(5)]
	if c.Model == "pdist" || c.Model == "rawdist" {
		c.GapMut = r.Intn(3)
	}
	if c.Model == "pdist" {
		c.RmAmbig = r.Chance(0.3)
	}
	switch r.Intn(4) {
	case 0:
		c.Weights = make([]float64, l)
		for k := range c.Weights {
			c.Weights[k] = float64(r.Range(1, 4))
		}
	case 1:
		if r.Chance(0.3) {
			c.Weights = make([]float64, l)
			for k := range c.Weights {
				c.Weights[k] = float64(r.Range(0, 8)) / 4 // dyadic, zero allowed
			}
		}
	}
	if r.Chance(0.15) {
		a, b := r.Intn(n), r.Intn(n)
		if a > b {
			a, b = b, a
		}
		x, y := r.Intn(n), r.Intn(n)
		if x > y {
			x, y = y, x
		}
		if r.Chance(0.3) {
			b = n + r.Intn(3) // beyond the last row: clamped by DistMatrix
		}
		c.Ranges = []int{a, b, x, y}
	}
	c.Cpus = r.Pick(1, 2, 2, 3, 3, 4, 4, 8, 16, 32)
	c.Policy = r.Pick(PolUniform, PolUniform, PolSticky, PolPCT, PolPCT, PolStarve)
	if big {
		c.Policy = r.Pick(PolStarve, PolPCT, PolUniform)
	}
	npairs := n * (n - 1) / 2
	if c.Ranges != nil {
		npairs = c08RangePairs(n, c.Ranges)
	}
	if r.Chance(0.5) && npairs > 0 {
		// fault configuration
		k := 1 + r.Intn(npairs)
		switch r.Intn(6) {
		case 0:
			k = 1
		case 1:
			k = npairs
		}
		if r.Chance(0.75) {
			c.FailDist = []int{k}
			if r.Chance(0.15) {
				c.FailDist = append(c.FailDist, 1+r.Intn(npairs))
			}
		} else {
			c.FailSeq = []int{1 + r.Intn(n+npairs)}
		}
	} else if c.Ranges == nil {
		c.Relation = r.PickS("colperm", "replicate", "weightk", "unitw", "revcomp", "rowperm", "", "")
		c.RelK = r.Range(2, 4)
		switch c.Relation {
		case "colperm":
			c.RelPerm = r.Perm(l)
		case "rowperm":
			c.RelPerm = r.Perm(n)
		}
		c.RelCpus = r.Pick(1, 2, 3, 4, 8)
		c.RelPol = r.Pick(PolUniform, PolSticky, PolPCT, PolStarve)
	}
	c.RunFirst = r.Bool()
	c.Reuse = r.Chance(0.4)
	if r.Chance(0.1) {
		c.Cli = r.PickS("plain", "plain", ".gz", "stdout")
	}
	return c
}

func c08RangePairs(n int, rg []int) int {
	r1a, r1b, r2a, r2b := rg[0], rg[1], rg[2], rg[3]
	if r1b >= n {
		r1b = n - 1
	}
	if r2b >= n {
		r2b = n - 1
	}
	k := 0
	seen := map[[2]int]bool{}
	for i := r1a; i <= r1b; i++ {
		for j := r2a; j <= r2b; j++ {
			a, b := i, j
			if a > b {
				a, b = b, a
			}
			if i != j && !seen[[2]int{a, b}] {
				seen[[2]int{a, b}] = true
				k++
			}
		}
	}
	return k
}

// quiet counter: invisible to the race detector (would otherwise order the
// workers that call Distance one after the other and hide their races)
type quietCounter struct {
	mu sync.Mutex
	n  int
}

//go:norace
func (q *quietCounter) Inc() int {
	verifrt.RaceOff()
	q.mu.Lock()
	q.n++
	n := q.n
	q.mu.Unlock()
	verifrt.RaceOn()
	return n
}

//go:norace
func (q *quietCounter) Get() int {
	verifrt.RaceOff()
	q.mu.Lock()
	n := q.n
	q.mu.Unlock()
	verifrt.RaceOn()
	return n
}

// simModel is the caller-supplied distance model: the real one behind the
// public interface, with failures injected at chosen calls.
type simModel struct {
	real     dna.DistModel
	failDist []int
	failSeq  []int
	nd, ns   quietCounter
	fired    quietCounter
}

func (m *simModel) InitModel(al align.Alignment, w []float64, g bool, a float64) error {
	return m.real.InitModel(al, w, g, a)
}

func (m *simModel) Sequence(i int) ([]uint8, error) {
	k := m.ns.Inc()
	for _, f := range m.failSeq {
		if f == k {
			m.fired.Inc()
			return nil, fmt.Errorf("injected Sequence failure at call %d (row %d)", k, i)
		}
	}
	return m.real.Sequence(i)
}

func (m *simModel) Distance(s1, s2 []uint8, w []float64) (float64, error) {
	k := m.nd.Inc()
	for _, f := range m.failDist {
		if f == k {
			m.fired.Inc()
			return 0, fmt.Errorf("injected Distance failure at call %d", k)
		}
	}
	return m.real.Distance(s1, s2, w)
}

func buildNtAlign(rows []string) (align.Alignment, error) {
	al := align.NewAlign(align.NUCLEOTIDS)
	for i, s := range rows {
		if err := al.AddSequence(fmt.Sprintf("s%d", i), s, ""); err != nil {
			return nil, err
		}
	}
	return al, nil
}

func snapshotAlign(al align.SeqBag) string {
	var sb strings.Builder
	fmt.Fprintf(&sb, "n=%d a=%d\n", al.NbSequences(), al.Alphabet())
	for i := 0; i < al.NbSequences(); i++ {
		s, _ := al.GetSequenceById(i)
		nm, _ := al.GetSequenceNameById(i)
		sb.WriteString(nm)
		sb.WriteByte('\t')
		sb.WriteString(s)
		sb.WriteByte('\n')
	}
	return sb.String()
}

func (c *C08Case) newModel() (dna.DistModel, error) {
	m, err := dna.Model(c.Model, c.RmGaps)
	if err != nil {
		return nil, err
	}
	if g, ok := m.(interface{ SetCountGapMutations(int) error }); ok {
		if err := g.SetCountGapMutations(c.GapMut); err != nil {
			return nil, err
		}
	}
	if g, ok := m.(interface{ SetRemoveAmbiguous(bool) }); ok {
		g.SetRemoveAmbiguous(c.RmAmbig)
	}
	return m, nil
}

type distRun struct {
	model  dna.DistModel // the real model the run used (initialised by DistMatrix)
	mat    [][]float64
	err    error
	sr     SchedResult
	fired  int
	nd     int
	snapOK bool
}

func (c *C08Case) runDist(ctx *Ctx, rows []string, weights []float64, cpus int, cfg SchedCfg, failDist, failSeq []int) (dr distRun, herr error) {
	al, err := buildNtAlign(rows)
	if err != nil {
		return dr, err
	}
	real, err := c.newModel()
	if err != nil {
		return dr, err
	}
	if c.served != nil {
		real, c.served = c.served, nil // a model object that has already served for another alignment
	}
	sm := &simModel{real: real, failDist: failDist, failSeq: failSeq}
	rg := []int{-1, -1, -1, -1}
	if c.Ranges != nil {
		rg = c.Ranges
	}
	before := snapshotAlign(al)
	var wcopy []float64
	if weights != nil {
		wcopy = append([]float64{}, weights...)
	}
	var mat [][]float64
	var derr error
	dr.sr = RunSched(ctx.T, cfg, func() {
		mat, derr = dna.DistMatrix(al, weights, sm, rg[0], rg[1], rg[2], rg[3], c.Gamma, c.Alpha, cpus)
	})
	if dr.sr.RootDone {
		dr.mat, dr.err = mat, derr
	}
	dr.model = real
	dr.fired = sm.fired.Get()
	dr.nd = sm.nd.Get()
	dr.snapOK = snapshotAlign(al) == before
	if weights != nil {
		for k := range weights {
			if math.Float64bits(weights[k]) != math.Float64bits(wcopy[k]) {
				dr.snapOK = false
			}
		}
	}
	return dr, nil
}

func comp(b byte) byte {
	const from = "ACGTRYSWKMBDHVNacgtryswkmbdhvn-"
	const to = "TGCAYRSWMKVHDBNtgcayrswmkvhdbn-"
	if i := strings.IndexByte(from, b); i >= 0 {
		return to[i]
	}
	return b
}

func (c08) Run(ctx *Ctx, ci interface{}) (o Outcome) {
	c := ci.(*C08Case)
	n := len(c.Rows)
	npairs := n * (n - 1) / 2
	if c.Ranges != nil {
		npairs = c08RangePairs(n, c.Ranges)
	}
	budget := 400*(npairs+c.Cpus+n) + 20000
	faulty := len(c.FailDist)+len(c.FailSeq) > 0

	// reference: one worker, FIFO schedule, no fault; the run under test before or after it
	cfg := SchedCfg{Seed: c.Seed, Policy: c.Policy, Choices: c.Choices, Strict: ctx.Strict, MaxSteps: budget}
	var run, ref distRun
	defer func() {
		if c.Cli != "" && o.V == nil && ctx.Diverged == "" && !faulty && c.Weights == nil && ref.sr.RootDone && ref.err == nil && ref.mat != nil {
			c.runCLI(ctx, &o, ref.mat)
		}
		if o.V == nil && ctx.Diverged == "" && !faulty && ref.sr.RootDone && ref.err == nil && ref.model != nil && Mix(c.Seed, "then-refused")%5 == 0 {
			// the model object that served for this alignment is given one it refuses (a residue outside the distance
			// code, as the next alignment of a file may hold): the refusal must come back as it does from a fresh
			// model - not the matrix of the alignment before
			rows2 := append([]string{}, c.Rows...)
			i, k := int(Mix(c.Seed, "row")%uint64(n)), int(Mix(c.Seed, "col")%uint64(len(c.Rows[0])))
			b := []byte(rows2[i])
			b[k] = "O?*"[Mix(c.Seed, "bad")%3]
			rows2[i] = string(b)
			fresh, herr := c.runDist(ctx, rows2, c.Weights, 1, SchedCfg{Seed: 1, Policy: PolFIFO, MaxSteps: budget}, nil, nil)
			if herr != nil || !fresh.sr.RootDone {
				return
			}
			c.served = ref.model
			again, _ := c.runDist(ctx, rows2, c.Weights, 1+int(Mix(c.Seed, "cpus2")%3), SchedCfg{Seed: 1, Policy: PolFIFO, MaxSteps: budget}, nil, nil)
			c.served = nil
			o.Add("refused_alignment_after_an_accepted_one", 1)
			if !again.sr.RootDone {
				o.Fail("hang:reused-model", "model %s: DistMatrix does not return for an alignment with the residue %q when the model has served for another alignment before", c.Model, string(b[k]))
				return
			}
			if (fresh.err != nil) != (again.err != nil) {
				o.Fail("relation:reused-model:error", "model %s: an alignment with the residue %q gets error %v from a fresh model and %v from the model object that has computed the matrix of another alignment before", c.Model, string(b[k]), fresh.err, again.err)
				return
			}
			if fresh.err == nil {
				if d := diffBits(fresh.mat, again.mat); d != "" {
					o.Fail("relation:reused-model", "model %s: the matrix of an alignment depends on whether the model object has served before: %s", c.Model, d)
				}
			}
		}
	}()
	if c.RunFirst {
		run, _ = c.runDist(ctx, c.Rows, c.Weights, c.Cpus, cfg, c.FailDist, c.FailSeq)
		o.Add("run_under_test_before_reference", 1)
	}
	var herr error
	ref, herr = c.runDist(ctx, c.Rows, c.Weights, 1, SchedCfg{Seed: 1, Policy: PolFIFO, MaxSteps: budget}, nil, nil)
	if herr != nil {
		o.Add("harness_skip", 1)
		return
	}
	if !c.RunFirst {
		run, _ = c.runDist(ctx, c.Rows, c.Weights, c.Cpus, cfg, c.FailDist, c.FailSeq)
	}
	if run.sr.Diverged != "" {
		ctx.Diverged = run.sr.Diverged
		return
	}
	if c.Choices == nil {
		c.Choices = run.sr.Choices
	}
	o.Sig = run.sr.Hash
	o.Nontrivial = c.Cpus >= 2 && npairs >= 3
	o.Add("sched_steps", int64(run.sr.Steps+ref.sr.Steps))
	o.Add("policy_"+policyNames[c.Policy%nPolicies], 1)
	o.Add(fmt.Sprintf("cpus_%02d", c.Cpus), 1)
	o.Add("model_"+c.Model, 1)
	if run.sr.MaxEnabled >= 3 {
		o.Add("probe_3plus_goroutines_enabled_at_once", 1)
	}
	if npairs > 100 {
		o.Add("probe_more_pairs_than_channel_slots", 1)
	}
	if run.fired > 0 {
		o.Add("fault_fired_total", int64(run.fired))
		if len(c.FailDist) > 0 {
			o.Add("fault_distance_error_fired", 1)
			if c.FailDist[0] == 1 {
				o.Add("probe_error_on_first_pair", 1)
			}
			if c.FailDist[0] == npairs {
				o.Add("probe_error_on_last_pair", 1)
			}
		} else {
			o.Add("fault_sequence_error_fired", 1)
		}
	}
	if ctx.Tier != "" && o.Sample == nil {
		o.Sample = map[string]interface{}{"rows": len(c.Rows), "cols": len(c.Rows[0]), "model": c.Model, "cpus": c.Cpus,
			"policy": policyNames[c.Policy%nPolicies], "fail_dist": c.FailDist, "fail_seq": c.FailSeq, "relation": c.Relation,
			"steps": run.sr.Steps, "trace_head": head(run.sr.Trace, 12)}
	}

	check := func(who string, d *distRun) bool {
		for _, p := range d.sr.Panics {
			fs := goalignFuncs(p.Stack)
			top := "?"
			if len(fs) > 0 {
				top = fs[0]
			}
			o.Fail("panic:"+top, "%s: goroutine g%d panicked: %s\n%s", who, p.Gid, p.Panic, p.Stack)
			return false
		}
		if d.sr.Deadlock {
			o.Fail("hang:"+d.sr.BlockedFuncs(), "%s: DistMatrix never returned: every goroutine is blocked after %d steps\n%s", who, d.sr.Steps, d.sr.Stacks)
			return false
		}
		if d.sr.Budget {
			o.Fail("livelock:DistMatrix", "%s: DistMatrix did not return within %d scheduler steps", who, d.sr.Steps)
			return false
		}
		if d.sr.Leaked > 0 {
			o.Fail("leak:"+d.sr.BlockedFuncs(), "%s: DistMatrix returned but left %d goroutine(s) blocked for good\n%s", who, d.sr.Leaked, d.sr.Stacks)
			return false
		}
		if !d.snapOK {
			o.Fail("input-modified:DistMatrix", "%s: DistMatrix modified its input alignment or weights", who)
			return false
		}
		return true
	}
	if !check("reference run (1 worker, FIFO)", &ref) {
		return
	}
	if ref.err != nil {
		// the model rejects the alignment (InitModel): no matrix to compare, but the verdict itself must not depend on
		// the number of workers, the schedule or the presentation of the alignment
		o.Add("reference_error", 1)
		if faulty {
			return
		}
		if !check(fmt.Sprintf("%d workers, policy %s", c.Cpus, policyNames[c.Policy%nPolicies]), &run) {
			return
		}
		if run.err == nil {
			o.Fail("lost-error:DistMatrix", "with 1 worker DistMatrix returns %v; with %d workers under policy %s it returns a matrix and no error", ref.err, c.Cpus, policyNames[c.Policy%nPolicies])
			return
		}
		switch c.Relation {
		case "colperm", "rowperm", "replicate", "weightk", "unitw":
			rows2, w2, _, ok := c.transformed()
			if !ok {
				return
			}
			rel, _ := c.runDist(ctx, rows2, w2, c.RelCpus, SchedCfg{Seed: Mix(c.Seed, "rel"), Policy: c.RelPol, Choices: c.RelCh, Strict: ctx.Strict, MaxSteps: budget * (c.RelK + 1)}, nil, nil)
			if rel.sr.Diverged != "" {
				ctx.Diverged = rel.sr.Diverged
				return
			}
			if c.RelCh == nil {
				c.RelCh = rel.sr.Choices
			}
			if !check("transformed presentation ("+c.Relation+")", &rel) {
				return
			}
			o.Add("relation_error_status_"+c.Relation, 1)
			if rel.err == nil {
				o.Fail("relation:"+c.Relation+":error", "model %s: the alignment as given is refused (%v), its %s presentation (k=%d) gets a matrix", c.Model, ref.err, c.Relation, c.RelK)
			}
		}
		return
	}
	if !check(fmt.Sprintf("%d workers, policy %s", c.Cpus, policyNames[c.Policy%nPolicies]), &run) {
		return
	}
	if faulty {
		if run.fired == 0 {
			o.Add("fault_not_reached", 1)
		} else if len(c.FailDist) > 0 && run.err == nil {
			o.Fail("lost-error:DistMatrix", "a model evaluation failed (Distance call %v of %d made) but DistMatrix returned err == nil", c.FailDist, run.nd)
			return
		} else if len(c.FailSeq) > 0 && run.err == nil {
			o.Add("observed_sequence_error_not_returned", 1)
		}
		if run.fired > 0 {
			return
		}
	}
	if run.err != nil {
		o.Fail("spurious-error:DistMatrix", "fault-free run with %d workers returned error %v (reference run: nil)", c.Cpus, run.err)
		return
	}
	if d := diffBits(ref.mat, run.mat); d != "" {
		o.Fail("schedule-dependent:DistMatrix", "matrix with %d workers under policy %s differs bitwise from the 1-worker reference: %s", c.Cpus, policyNames[c.Policy%nPolicies], d)
		return
	}
	o.Add("fault_free_bit_identical", 1)

	// Assembly of the matrix: the cell of every pair the call covers (all pairs, or range 1 x range 2) is the
	// model's distance of the two rows, both ways round; every other cell is 0. Pairs whose distance is not an
	// ordinary number (they get the matrix-wide substitute) are left out.
	if !faulty && run.mat != nil && run.model != nil {
		inScope := func(i, j int) bool {
			if c.Ranges == nil {
				return true
			}
			in := func(x, a, b int) bool { return x >= a && x <= b }
			r := c.Ranges
			return (in(i, r[0], r[1]) && in(j, r[2], r[3])) || (in(j, r[0], r[1]) && in(i, r[2], r[3]))
		}
		for i := 0; i < n; i++ {
			for j := 0; j < n; j++ {
				got := run.mat[i][j]
				if i == j || !inScope(i, j) {
					if got != 0 {
						o.Fail("assembly:cell-outside-scope:DistMatrix", "cell [%d][%d] is %v; it is on the diagonal or outside the requested ranges %v and must be 0", i, j, got, c.Ranges)
						return
					}
					continue
				}
				si, e1 := run.model.Sequence(i)
				sj, e2 := run.model.Sequence(j)
				if e1 != nil || e2 != nil {
					continue
				}
				a, ea := run.model.Distance(si, sj, c.Weights)
				b, eb := run.model.Distance(sj, si, c.Weights)
				if ea != nil || eb != nil || math.IsNaN(a) || math.IsInf(a, 0) || a < 0 || a > 1000 {
					continue
				}
				o.Add("assembly_cells_checked", 1)
				if math.Float64bits(got) != math.Float64bits(a) && math.Float64bits(got) != math.Float64bits(b) {
					o.Fail("assembly:cell-differs-from-model:DistMatrix", "cell [%d][%d] is %v; the model's distance of rows %d and %d is %v (ranges %v, model %s)", i, j, got, i, j, a, c.Ranges, c.Model)
					return
				}
			}
		}
	}

	// relational clauses, riding on simulated runs under a different schedule
	if c.Relation == "" || faulty {
		return
	}
	if (c.Relation == "colperm" || c.Relation == "replicate" || c.Relation == "weightk") && c.GapMut == dna.GAP_COUNT_INTERNAL {
		o.Add("relation_exempt_internal_gap_mode", 1)
		return
	}
	rows2, w2, scale, ok := c.transformed()
	if !ok {
		o.Add("relation_skipped", 1)
		return
	}
	cfg2 := SchedCfg{Seed: Mix(c.Seed, "rel"), Policy: c.RelPol, Choices: c.RelCh, Strict: ctx.Strict, MaxSteps: budget * (c.RelK + 1)}
	maRun := substituted(&run, c.Weights, n) // asked before the model object may serve again
	if c.Reuse && run.model != nil {
		c.served = run.model
		o.Add("relation_with_a_model_that_already_served", 1)
	}
	rel, _ := c.runDist(ctx, rows2, w2, c.RelCpus, cfg2, nil, nil)
	c.served = nil
	if rel.sr.Diverged != "" {
		ctx.Diverged = rel.sr.Diverged
		return
	}
	if c.RelCh == nil {
		c.RelCh = rel.sr.Choices
	}
	o.Add("sched_steps", int64(rel.sr.Steps))
	if !check("transformed presentation ("+c.Relation+")", &rel) {
		return
	}
	if rel.err != nil {
		o.Fail("relation:"+c.Relation+":error", "the %s presentation returned error %v, the original none", c.Relation, rel.err)
		return
	}
	o.Add("relation_"+c.Relation, 1)
	a, b := run.mat, rel.mat
	// pairs whose model distance is not an ordinary number under either presentation get the matrix-wide
	// substitute (twice the largest ordinary distance, which may be small): "up to rounding" says nothing of them,
	// a saturated estimator is log(0) under one presentation and log(1e-16) under the other
	ma, mb := maRun, substituted(&rel, w2, n)
	if c.Relation == "rowperm" {
		pm := make([][]bool, n)
		for i := range pm {
			pm[i] = make([]bool, n)
		}
		for i := 0; i < n; i++ {
			for j := 0; j < n; j++ {
				pm[c.RelPerm[i]][c.RelPerm[j]] = mb[i][j]
			}
		}
		mb = pm
	}
	for i := range ma {
		for j := range ma[i] {
			ma[i][j] = ma[i][j] || mb[i][j]
		}
	}
	if c.Relation == "rowperm" {
		// b[i][j] is the distance between original rows perm[i], perm[j]
		pb := make([][]float64, n)
		for i := range pb {
			pb[i] = make([]float64, n)
		}
		for i := 0; i < n; i++ {
			for j := 0; j < n; j++ {
				pb[c.RelPerm[i]][c.RelPerm[j]] = b[i][j]
			}
		}
		b = pb
	}
	if d := diffTol(a, b, scale, c.Model == "rawdist", ma); d != "" {
		o.Fail("relation:"+c.Relation, "model %s: %s presentation (k=%d) changes the matrix: %s", c.Model, c.Relation, c.RelK, d)
	}
	return
}

// transformed: the other presentation of the same alignment that the relation of the case asks for.
func (c *C08Case) transformed() (rows2 []string, w2 []float64, scale float64, ok bool) {
	rows2 = append([]string{}, c.Rows...)
	w2 = c.Weights
	scale = 1.0
	l := len(c.Rows[0])
	switch c.Relation {
	case "colperm":
		for i, s := range c.Rows {
			b := make([]byte, l)
			for k := range b {
				b[k] = s[c.RelPerm[k]]
			}
			rows2[i] = string(b)
		}
		if c.Weights != nil {
			w2 = make([]float64, l)
			for k := range w2 {
				w2[k] = c.Weights[c.RelPerm[k]]
			}
		}
	case "replicate":
		for i, s := range c.Rows {
			rows2[i] = strings.Repeat(s, c.RelK)
		}
		if c.Weights != nil {
			w2 = nil
			for k := 0; k < c.RelK; k++ {
				w2 = append(w2, c.Weights...)
			}
		}
		if c.Model == "rawdist" {
			scale = float64(c.RelK)
		}
	case "weightk":
		w2 = make([]float64, l)
		for k := range w2 {
			w2[k] = float64(c.RelK)
			if c.Weights != nil {
				w2[k] *= c.Weights[k]
			}
		}
		if c.Model == "rawdist" {
			scale = float64(c.RelK)
		}
	case "unitw":
		if c.Weights != nil {
			return nil, nil, 1, false
		}
		w2 = make([]float64, l)
		for k := range w2 {
			w2[k] = 1
		}
	case "revcomp":
		for i, s := range c.Rows {
			b := make([]byte, l)
			for k := range b {
				b[k] = comp(s[l-1-k])
			}
			rows2[i] = string(b)
		}
		if c.Weights != nil {
			w2 = make([]float64, l)
			for k := range w2 {
				w2[k] = c.Weights[l-1-k]
			}
		}
	case "rowperm":
		for i := range rows2 {
			rows2[i] = c.Rows[c.RelPerm[i]]
		}
	}
	return rows2, w2, scale, true
}

// substituted marks the pairs whose distance, asked of the model the run used, is not an ordinary number:
// DistMatrix replaces those cells by a matrix-wide substitute.
func substituted(dr *distRun, weights []float64, n int) [][]bool {
	m := make([][]bool, n)
	for i := range m {
		m[i] = make([]bool, n)
	}
	if dr.model == nil {
		return m
	}
	for i := 0; i < n; i++ {
		for j := 0; j < n; j++ {
			if i == j {
				continue
			}
			si, e1 := dr.model.Sequence(i)
			sj, e2 := dr.model.Sequence(j)
			if e1 != nil || e2 != nil {
				m[i][j] = true
				continue
			}
			d, err := dr.model.Distance(si, sj, weights)
			m[i][j] = err != nil || math.IsNaN(d) || math.IsInf(d, 0) || d < 0 || d > dna.NT_DIST_OVER
		}
	}
	for i := 0; i < n; i++ {
		for j := 0; j < n; j++ {
			m[i][j] = m[i][j] || m[j][i]
		}
	}
	return m
}

func head(s []string, n int) []string {
	if len(s) > n {
		return s[:n]
	}
	return s
}

func diffBits(a, b [][]float64) string {
	if len(a) != len(b) {
		return fmt.Sprintf("dimension %d vs %d", len(a), len(b))
	}
	for i := range a {
		if len(a[i]) != len(b[i]) {
			return fmt.Sprintf("row %d: length %d vs %d", i, len(a[i]), len(b[i]))
		}
		for j := range a[i] {
			if math.Float64bits(a[i][j]) != math.Float64bits(b[i][j]) {
				return fmt.Sprintf("cell [%d][%d]: %v (%#x) vs %v (%#x)", i, j, a[i][j], math.Float64bits(a[i][j]), b[i][j], math.Float64bits(b[i][j]))
			}
		}
	}
	return ""
}

// diffTol compares b with scale*a. A cell that is non-finite or (for the
// per-site models) at or above 5 substitutions per site under either
// presentation is not compared: the estimators amplify rounding without bound
// near saturation, and such a pair may be replaced by the matrix-wide
// substitute under one presentation and not under the other.
func diffTol(a, b [][]float64, scale float64, raw bool, skip [][]bool) string {
	if len(a) != len(b) {
		return fmt.Sprintf("dimension %d vs %d", len(a), len(b))
	}
	unstable := func(x float64) bool {
		return math.IsNaN(x) || math.IsInf(x, 0) || (!raw && x >= 5)
	}
	for i := range a {
		for j := range a[i] {
			x, y := a[i][j], b[i][j]
			if unstable(x) || unstable(y) || (skip != nil && skip[i][j]) {
				continue
			}
			want := x * scale
			if math.Abs(want-y) > 1e-9*math.Max(math.Abs(want), math.Abs(y))+1e-12 {
				return fmt.Sprintf("cell [%d][%d]: %v (x%v = %v) vs %v", i, j, x, scale, want, y)
			}
		}
	}
	return ""
}

func (c08) Shrink(ci interface{}) []interface{} {
	c := ci.(*C08Case)
	var out []interface{}
	add := func(f func(n *C08Case) bool) {
		n := cloneCase(c08{}, c).(*C08Case)
		if f(n) {
			out = append(out, n)
		}
	}
	// simpler schedule first (keeps the workload)
	for _, ch := range shrinkChoices(c.Choices) {
		ch := ch
		add(func(n *C08Case) bool { n.Choices = ch; return true })
	}
	if c.Relation != "" {
		for _, ch := range shrinkChoices(c.RelCh) {
			ch := ch
			add(func(n *C08Case) bool { n.RelCh = ch; return true })
		}
		add(func(n *C08Case) bool { n.RelCpus = 1; return c.RelCpus != 1 })
	}
	// fewer workers
	for _, k := range []int{1, 2, 3, 4} {
		k := k
		if k < c.Cpus {
			add(func(n *C08Case) bool { n.Cpus = k; n.Choices = []int{}; return true })
		}
	}
	// drop rows (schedule becomes FIFO-from-start: recorded choices no longer fit)
	if len(c.Rows) > 2 && c.Relation != "rowperm" && c.Ranges == nil {
		for i := len(c.Rows) - 1; i >= 0; i-- {
			i := i
			add(func(n *C08Case) bool {
				n.Rows = append(append([]string{}, c.Rows[:i]...), c.Rows[i+1:]...)
				return true
			})
		}
	}
	// halve columns
	if l := len(c.Rows[0]); l > 1 && c.Relation != "colperm" {
		for _, keep := range []int{l / 2, l - 1} {
			keep := keep
			if keep < 1 || keep >= l {
				continue
			}
			add(func(n *C08Case) bool {
				for i := range n.Rows {
					n.Rows[i] = n.Rows[i][:keep]
				}
				if n.Weights != nil {
					n.Weights = n.Weights[:keep]
				}
				return true
			})
		}
	}
	if len(c.FailDist) > 1 {
		add(func(n *C08Case) bool { n.FailDist = n.FailDist[:1]; return true })
	}
	if len(c.FailDist) > 0 && c.FailDist[0] > 1 {
		add(func(n *C08Case) bool { n.FailDist[0] = 1; return true })
	}
	if c.Weights != nil {
		add(func(n *C08Case) bool { n.Weights = nil; return true })
	}
	if c.Gamma {
		add(func(n *C08Case) bool { n.Gamma = false; return true })
	}
	if c.RmGaps {
		add(func(n *C08Case) bool { n.RmGaps = false; return true })
	}
	return out
}

// runCLI executes `goalign compute distance` in this process on the alignment of the case, with its model,
// options, ranges and thread count, and holds the matrix it prints - one line per row under the row's name,
// twelve decimals - to the matrix the library call returned.
func (c *C08Case) runCLI(ctx *Ctx, o *Outcome, want [][]float64) {
	names := make([]string, len(c.Rows))
	for i := range names {
		names[i] = fmt.Sprintf("s%d", i)
	}
	files := map[string]string{"in.fa": fastaOf(names, c.Rows)}
	out := map[string]string{"plain": "dist.txt", ".gz": "dist.txt.gz", "stdout": "stdout"}[c.Cli]
	args := []string{"compute", "distance", "-m", c.Model, "-i", "in.fa", "-o", out, "-t", fmt.Sprint(c.Cpus),
		"--rm-gaps=" + fmt.Sprint(c.RmGaps), "--gap-mut", fmt.Sprint(c.GapMut), "--rm-ambiguous=" + fmt.Sprint(c.RmAmbig)}
	if c.Gamma {
		args = append(args, "--alpha", strconv.FormatFloat(c.Alpha, 'g', -1, 64))
	}
	if c.Ranges != nil {
		args = append(args, "--range1", fmt.Sprintf("%d:%d", c.Ranges[0], c.Ranges[1]), "--range2", fmt.Sprintf("%d:%d", c.Ranges[2], c.Ranges[3]))
	}
	res := runInProc(ctx, args, files, 1, 1700000000e9)
	o.Add("command_line_executions", 1)
	what := "goalign " + strings.Join(args, " ")
	for _, p := range res.sr.Panics {
		if p.Exit < 0 {
			o.Fail("panic:cli:compute-distance", "%s: goroutine g%d panicked: %s\n%s", what, p.Gid, p.Panic, p.Stack)
			return
		}
	}
	if res.sr.Deadlock || res.sr.Budget {
		o.Fail("hang:cli:compute-distance", "%s does not return: %s", what, res.sr.Stacks)
		return
	}
	if res.err != nil || res.exit >= 0 {
		o.Fail("cli-differs:error:compute-distance", "%s fails (%v, exit %d); the library call with the same options returned a matrix", what, res.err, res.exit)
		return
	}
	name := out
	if out == "stdout" {
		name = "stdout.txt"
	}
	b, have := res.files[name]
	if !have {
		o.Fail("cli-differs:missing-output:compute-distance", "%s leaves no file %s", what, name)
		return
	}
	if strings.HasSuffix(name, ".gz") {
		zr, err := gzip.NewReader(bytes.NewReader(b))
		if err == nil {
			b, err = io.ReadAll(zr)
		}
		if err != nil {
			o.Fail("cli-differs:unreadable-output:compute-distance", "%s: %s (%d bytes) is not a complete gzip file: %v", what, name, len(res.files[name]), err)
			return
		}
	}
	var wb strings.Builder
	fmt.Fprintf(&wb, "%d\n", len(want))
	for i := range want {
		wb.WriteString(names[i])
		for j := range want[i] {
			fmt.Fprintf(&wb, "\t%.12f", want[i][j])
		}
		wb.WriteString("\n")
	}
	if string(b) != wb.String() {
		gl, wl := strings.Split(string(b), "\n"), strings.Split(wb.String(), "\n")
		k := 0
		for k < len(gl) && k < len(wl) && gl[k] == wl[k] {
			k++
		}
		g, w := "<end>", "<end>"
		if k < len(gl) {
			g = gl[k]
		}
		if k < len(wl) {
			w = wl[k]
		}
		o.Fail("cli-differs:matrix:compute-distance", "%s prints a matrix that is not the one the library call returns for the same alignment and options: line %d is %q, expected %q", what, k+1, clip(g, 200), clip(w, 200))
		return
	}
	o.Add("command_line_matrix_equals_library_matrix", 1)
}
