package sim

import (
	"fmt"
	"io"
	"os"
	"strings"
	"syscall"

	"github.com/evolbioinfo/goalign/align"
)

// E2: simulated stream. simFile is the "disk and pipe" every parser reads
// from: it decides how the bytes are cut into reads, when empty reads
// happen, how the end of the stream is signalled, where a read error strikes,
// and it watches the reader side: reads after the terminal condition, reads
// after Close, number of Close calls.

const (
	FragAll    = iota // everything in one read
	FragOne           // one byte per read
	FragSmall         // 2-7 bytes
	FragLine          // up to and including the next newline (+-1 byte)
	FragBufio         // 4096 = bufio's buffer
	FragMixed         // a new choice among the above for every read
	nFragModes
)

var fragNames = []string{"all", "1-byte", "2-7", "line", "4096", "mixed"}

// ReadPlan is the delivery plan of one simulated stream. Everything is
// derived from Seed, so the plan replays.
type ReadPlan struct {
	Mode        int    `json:"mode"`
	Seed        uint64 `json:"seed"`
	ZeroReads   bool   `json:"zero_reads"`    // up to 3 consecutive (0,nil) reads now and then
	EOFWithData bool   `json:"eof_with_data"` // the last fragment comes back as (n, io.EOF)
	ErrAt       int    `json:"err_at"`        // offset at which Read fails instead of delivering (-1 = never)
	ErrKind     int    `json:"err_kind"`      // 0 io.ErrUnexpectedEOF, 1 EIO
}

func genReadPlan(r *Rand) ReadPlan {
	p := ReadPlan{Mode: r.Intn(nFragModes), Seed: r.U64(), ErrAt: -1}
	p.ZeroReads = r.Chance(0.2)
	p.EOFWithData = r.Chance(0.3)
	return p
}

// readBudget is the sentinel simFile panics with when a reader keeps reading
// after the terminal condition was reported postEOFBudget times: a loop that
// waits for a token that can no longer come.
type readBudget struct{}

func (readBudget) String() string { return "readBudget" }

const postEOFBudget = 10000

type simFile struct {
	data []byte
	pos  int
	plan ReadPlan
	rng  *Rand

	reads           int
	zeroRun         int
	postEOF         int
	closed          bool
	closes          int
	readsAfterClose int
	posAtClose      int
	// park, when set, is called at the beginning of every Read: the
	// scheduler's hook ("deliver next fragment" is a scheduling point)
	park func()
	// parkClose, when set, is called at the beginning of Close (a scheduling point as well)
	parkClose func()
}

func newSimFile(data []byte, plan ReadPlan) *simFile {
	return &simFile{data: data, plan: plan, rng: NewRand(plan.Seed), posAtClose: -1}
}

func (f *simFile) end() int {
	if f.plan.ErrAt >= 0 && f.plan.ErrAt < len(f.data) {
		return f.plan.ErrAt
	}
	return len(f.data)
}

func (f *simFile) terminal() error {
	if f.plan.ErrAt >= 0 && f.plan.ErrAt <= len(f.data) {
		if f.plan.ErrKind == 1 {
			return &os.PathError{Op: "read", Path: "simfile", Err: syscall.EIO}
		}
		return io.ErrUnexpectedEOF
	}
	return io.EOF
}

func (f *simFile) Read(p []byte) (int, error) {
	if f.park != nil {
		f.park()
	}
	f.reads++
	if f.closed {
		f.readsAfterClose++
		return 0, os.ErrClosed
	}
	if len(p) == 0 {
		return 0, nil
	}
	end := f.end()
	if f.pos >= end {
		f.postEOF++
		if f.postEOF > postEOFBudget {
			panic(readBudget{})
		}
		return 0, f.terminal()
	}
	if f.plan.ZeroReads && f.zeroRun < 3 && f.rng.Chance(0.15) {
		f.zeroRun++
		return 0, nil
	}
	f.zeroRun = 0
	mode := f.plan.Mode
	if mode == FragMixed {
		mode = f.rng.Intn(FragMixed)
	}
	n := end - f.pos
	switch mode {
	case FragOne:
		n = 1
	case FragSmall:
		n = 2 + f.rng.Intn(6)
	case FragLine:
		k := 0
		for f.pos+k < end && f.data[f.pos+k] != '\n' {
			k++
		}
		n = k + f.rng.Intn(3) // line without, with its newline, or one byte more
		if n < 1 {
			n = 1
		}
	case FragBufio:
		n = 4096
	}
	if n > len(p) {
		n = len(p)
	}
	if n > end-f.pos {
		n = end - f.pos
	}
	copy(p, f.data[f.pos:f.pos+n])
	f.pos += n
	if f.pos >= end && f.plan.EOFWithData {
		return n, f.terminal()
	}
	return n, nil
}

func (f *simFile) Close() error {
	if f.parkClose != nil {
		f.parkClose()
	}
	f.closes++
	if !f.closed {
		f.closed = true
		f.posAtClose = f.pos
	}
	return nil
}

// ---------------------------------------------------------------------
// alignments for the stream engines
// ---------------------------------------------------------------------

const aaCore = "ARNDCQEGHILKMFPSTWYV"
const aaAmbig = "BZX"

// AlnSpec is a plain alignment: the reference model of what a file holds.
type AlnSpec struct {
	Names    []string `json:"names"`
	Seqs     []string `json:"seqs"`
	Alphabet int      `json:"alphabet"` // align.NUCLEOTIDS / align.AMINOACIDS: what the residues were drawn from
}

func (a *AlnSpec) Build() (align.Alignment, error) {
	al := align.NewAlign(a.Alphabet)
	for i := range a.Names {
		if err := al.AddSequence(a.Names[i], a.Seqs[i], ""); err != nil {
			return nil, err
		}
	}
	return al, nil
}

func (a *AlnSpec) String() string {
	var sb strings.Builder
	for i := range a.Names {
		fmt.Fprintf(&sb, "%q %q\n", a.Names[i], a.Seqs[i])
	}
	return sb.String()
}

// ioLengths: lengths that straddle every writer line / block width.
func ioLength(r *Rand, max int) int {
	var cands []int
	for _, w := range []int{10, 50, 60, 80} {
		for _, l := range []int{w - 1, w, w + 1, 2 * w, 2*w + 1, 3 * w} {
			if l >= 1 && l <= max {
				cands = append(cands, l)
			}
		}
	}
	cands = append(cands, 1, 2, 3)
	if r.Chance(0.5) && len(cands) > 0 {
		return cands[r.Intn(len(cands))]
	}
	return 1 + r.Intn(max)
}

// genResidues draws one row. extra are further characters the target format
// can carry ('-', '*', '?', ...).
func genResidues(r *Rand, l int, alphabet int, lower bool, extra string, pextra float64) string {
	core, amb := ntCore, ntAmbig
	if alphabet == align.AMINOACIDS {
		core, amb = aaCore, aaAmbig
	}
	b := make([]byte, l)
	for k := range b {
		switch {
		case extra != "" && r.Chance(pextra):
			b[k] = extra[r.Intn(len(extra))]
		case r.Chance(0.08):
			b[k] = amb[r.Intn(len(amb))]
		default:
			b[k] = core[r.Intn(len(core))]
		}
		if lower && r.Chance(0.4) && b[k] >= 'A' && b[k] <= 'Z' {
			b[k] += 'a' - 'A'
		}
	}
	return string(b)
}

// simpleAln: names s0..s(n-1)-like, residues of one alphabet with gaps.
func simpleAln(r *Rand, maxRows, maxLen int) *AlnSpec {
	a := &AlnSpec{Alphabet: align.NUCLEOTIDS}
	if r.Chance(0.35) {
		a.Alphabet = align.AMINOACIDS
	}
	n := 1 + r.Intn(maxRows)
	l := ioLength(r, maxLen)
	lower := r.Chance(0.15)
	for i := 0; i < n; i++ {
		nm := fmt.Sprintf("seq%d", i)
		switch r.Intn(6) {
		case 0:
			nm = fmt.Sprintf("%d", 100+i) // all-digit name: every parser has a NUMERIC-as-name arm
		case 1:
			nm = fmt.Sprintf("T%d_x", i)
		}
		a.Names = append(a.Names, nm)
		a.Seqs = append(a.Seqs, genResidues(r, l, a.Alphabet, lower, "-", 0.1))
	}
	// make sure the alphabet is detectable as drawn: an amino-acid alignment
	// spelt only with nucleotide letters would legitimately be detected as DNA
	if a.Alphabet == align.AMINOACIDS {
		s := []byte(a.Seqs[0])
		s[r.Intn(len(s))] = "EFILPQ"[r.Intn(6)]
		a.Seqs[0] = string(s)
	}
	return a
}
