module sim

go 1.26.8

godebug randseednop=0

require github.com/evolbioinfo/goalign v0.0.0

require (
	github.com/abiosoft/ishell v2.0.0+incompatible // indirect
	github.com/abiosoft/readline v0.0.0-20180607040430-155bce2042db // indirect
	github.com/armon/go-radix v1.0.0 // indirect
	github.com/fatih/color v1.7.0 // indirect
	github.com/flynn-archive/go-shlex v0.0.0-20150515145356-3f9db97f8568 // indirect
	github.com/fredericlemoine/cobrashell v0.0.0-20180921081141-49c72f93426c // indirect
	github.com/mattn/go-colorable v0.0.9 // indirect
	github.com/mattn/go-isatty v0.0.3 // indirect
	github.com/spf13/cobra v1.5.0 // indirect
	github.com/spf13/pflag v1.0.5 // indirect
	github.com/ulikunitz/xz v0.5.10 // indirect
	gonum.org/v1/gonum v0.9.3 // indirect
)

replace github.com/evolbioinfo/goalign => /repo
