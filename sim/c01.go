package sim

import (
	"fmt"
	"math/rand"
	"regexp"
	"runtime/debug"
	"sort"
	"strconv"
	"strings"

	"github.com/evolbioinfo/goalign/align"
	"github.com/evolbioinfo/goalign/verifrt"
)

// C01 — Alignments stay rectangular, uniquely named and index-consistent.
// E4: a simulated client issues a history of public operations against one
// live container; after every operation the container is compared, through
// its public interface only, with a list-of-(name, sequence) reference model
// and every access path (by index, by name, iteration, Sequences) is compared
// with every other. Operations that must be rejected are part of the history
// (the fault kind of this engine); shuffles and samples take a seed per
// operation; the map-iteration order is seeded per run.

type HRow struct {
	Name string `json:"name"`
	Seq  string `json:"seq"`
}

type HOp struct {
	Kind  string   `json:"kind"`
	Name  string   `json:"name,omitempty"`
	Seq   string   `json:"seq,omitempty"`
	I     int      `json:"i,omitempty"`
	J     int      `json:"j,omitempty"`
	N     int      `json:"n,omitempty"`
	Flag  bool     `json:"flag,omitempty"`
	Seed  int64    `json:"seed,omitempty"`
	Regex string   `json:"regex,omitempty"`
	Repl  string   `json:"repl,omitempty"`
	Other []HRow   `json:"other,omitempty"`
	Pairs []string `json:"pairs,omitempty"` // rename: old1, new1, old2, new2 ... ("#k" = name of row k mod n)
}

type C01Case struct {
	Bag     bool   `json:"bag"` // start from a sequence set (unaligned) instead of an alignment
	Policy  int    `json:"policy"`
	Start   []HRow `json:"start"`
	Ops     []HOp  `json:"ops"`
	MapSeed uint64 `json:"map_seed"`
}

type c01 struct{}

func init() { Register(c01{}) }

func (c01) ID() string       { return "C01" }
func (c01) New() interface{} { return &C01Case{} }
func (c01) Rule() string {
	return "each run: a start container (alignment or sequence set; empty, one row, one column, mixed case and colliding names included; one of the three duplicate-name policies) and a history of 1-12 operations out of 51 kinds (add with right / wrong length and fresh / existing name, append, concat, rename, rename-regexp, clean-names, trim-names, trim-names-auto, append-identifier, sort, shuffle, filter-length, deduplicate, remove-gap-seqs, remove-character-seqs, translate in one or three phases or along a reference row, clone, sample, clear, sub-align, select-sites, transpose, unalign, replace, replace-match-chars, mask, case changes, set-policy, remove-gap-sites, remove-character-sites, remove-majority-sites, compress, trim-sequences; and, held to the invariants and to what they conserve, swap, recombine, shuffle-sites, add-gaps, mutate, simulate-rogue, mask-unique, mask-occurences, rand-sub-align) with arguments resolved against the current content; after every operation all access paths are compared with each other and with the list model (operations whose documentation does not fix the result are only held to the invariants, after which the model is re-read from the container). Distinct = distinct sequence of operation kinds + start shape; non-trivial = at least 2 operations that change the container."
}

var c01Names = []string{"a", "b", "c", "A", "seq1", "seq2", "a_0001", "s:1", " x", "t.1|u", "Seq_10", "zz"}

func c01Seq(r *Rand, l int) string {
	b := make([]byte, l)
	for k := range b {
		b[k] = "ACGTACGTN-acgt"[r.Intn(14)]
	}
	return string(b)
}

var c01Kinds = []string{"add", "add", "add", "append", "concat", "rename", "rename", "rename-regexp", "clean-names", "trim-names", "trim-names-auto", "append-identifier",
	"sort", "sort", "shuffle", "filter-length", "deduplicate", "remove-gap-seqs", "translate", "clone", "sample", "clear", "sub-align", "unalign", "replace", "to-upper", "to-lower", "set-policy",
	"remove-gap-sites", "trim-sequences", "remove-majority-sites", "remove-character-sites", "compress",
	"select-sites", "transpose", "mask", "mask", "remove-character-seqs", "replace-match-chars",
	"swap", "recombine", "shuffle-sites", "add-gaps", "mutate", "simulate-rogue", "mask-unique", "mask-occurences", "rand-sub-align", "translate-by-reference", "rarefy", "replace-regex"}

func (c01) Gen(rs uint64, tier string, race bool) interface{} {
	r := NewRand(rs)
	c := &C01Case{MapSeed: r.U64()}
	c.Bag = r.Chance(0.2)
	c.Policy = r.Pick(align.IGNORE_NONE, align.IGNORE_NONE, align.IGNORE_NAME, align.IGNORE_SEQUENCE)
	n := r.Pick(0, 1, 1, 2, 3, 3, 4, 5, 6)
	l := r.Pick(1, 2, 3, 4, 6, 6, 8, 9)
	big := r.Chance(0.04)
	if big {
		n = r.Range(13, 18) // beyond the sizes below which library sorts are stable
	}
	perm := r.Perm(len(c01Names))
	for i := 0; i < n; i++ {
		nm := c01Names[perm[i%len(perm)]]
		if i >= len(perm) {
			nm = fmt.Sprintf("n%02d", n-i)
		}
		if r.Chance(0.1) && i > 0 {
			nm = c.Start[r.Intn(i)].Name // duplicate-name input: resolved by the policy
		}
		li := l
		if c.Bag {
			li = 1 + r.Intn(9)
		}
		c.Start = append(c.Start, HRow{nm, c01Seq(r, li)})
	}
	nops := r.Pick(1, 2, 2, 3, 3, 4, 5, 6, 8, 12)
	for k := 0; k < nops; k++ {
		kind := c01Kinds[r.Intn(len(c01Kinds))]
		if big && r.Chance(0.6) {
			kind = r.PickS("rename", "rename", "sort", "shuffle", "rename-regexp", "add")
		}
		op := HOp{Kind: kind, I: r.Intn(64), J: r.Intn(64), N: r.Intn(8), Flag: r.Bool(), Seed: int64(r.U64() >> 1)}
		switch op.Kind {
		case "add":
			op.Name = c01Names[r.Intn(len(c01Names))]
			op.Seq = c01Seq(r, 12)
			op.J = r.Pick(0, 0, 0, 1) // 1 = wrong length
		case "append", "concat":
			m := 1 + r.Intn(3)
			if r.Chance(0.08) {
				m = 0 // the other alignment is empty
			}
			p2 := r.Perm(len(c01Names))
			for i := 0; i < m; i++ {
				op.Other = append(op.Other, HRow{c01Names[p2[i]], c01Seq(r, 12)})
			}
			op.J = r.Pick(0, 0, 0, 1)
			op.N = 1 + r.Intn(4) // length of the other alignment for concat
		case "rename":
			for i := r.Range(1, 3); i > 0; i-- {
				nw := c01Names[r.Intn(len(c01Names))]
				if r.Chance(0.5) {
					nw = fmt.Sprintf("r%d", r.Intn(5))
				}
				op.Pairs = append(op.Pairs, fmt.Sprintf("#%d", r.Intn(20)), nw)
			}
		case "rename-regexp":
			k := r.Intn(5)
			op.Regex = []string{"^s", "[0-9]+", "(.)$", "a", "_.*$"}[k]
			op.Repl = []string{"t", "", "$1$1", "b", ""}[k]
		case "append-identifier":
			op.Name = r.PickS("_x", "p.", "", "1")
		case "trim-names":
			op.N = r.Pick(3, 4, 5, 8)
		case "filter-length":
			op.I = r.Pick(-1, -1, 1, 2, 4, 6, 8)
			op.J = r.Pick(-1, -1, 2, 3, 5, 7, 9)
		case "sample", "sub-align", "trim-sequences":
			op.N = r.Intn(10)
		case "replace":
			op.Name = r.PickS("A", "C", "-", "N")
			op.Seq = r.PickS("T", "G", "N", "-", ".")
		case "set-policy":
			op.N = r.Pick(align.IGNORE_NONE, align.IGNORE_NAME, align.IGNORE_SEQUENCE)
		case "replace-regex":
			k := r.Intn(7)
			op.Regex = []string{"N+", "-+", "A.", "[CG]", "^A", "T$", "(A)(C)"}[k]
			op.Repl = []string{"--", "NN", "--", "S", "-", "-", "$2$1"}[k]
		case "translate":
			op.N = r.Pick(0, 0, 1, 2, -1)
		case "select-sites":
			for k := r.Range(0, 6); k > 0; k-- {
				op.Pairs = append(op.Pairs, fmt.Sprint(r.Intn(64)))
			}
		case "mask":
			op.Name = r.PickS("", "", "AMBIG", "GAP", "MAJ", "X", "-")
			op.J = r.Pick(0, 0, 1, 2) // 0: no reference; 1: reference row, its characters kept; 2: reference row given, not used
		case "mask-unique", "mask-occurences":
			op.Name = r.PickS("", "AMBIG", "GAP", "MAJ", "?")
			op.J = r.Pick(0, 1)
			op.N = r.Intn(4)
		case "remove-character-seqs":
			op.Name = r.PickS("A", "-", "N", "a", "T")
			op.N = r.Pick(0, 0, 1, 2, 3, 4, -1, 5) // cutoff in quarters; -1 and 5 are outside [0,1]
			op.J = r.Intn(8)                       // ignoreCase, ignoreGaps, ignoreNs
		case "swap", "recombine", "shuffle-sites", "add-gaps", "mutate", "simulate-rogue":
			op.N = r.Pick(0, 1, 2, 3, 4) // rate in quarters
			op.J = r.Pick(0, 0, 1, 2, 4) // second rate in quarters
		case "rand-sub-align":
			op.N = r.Intn(10)
		}
		c.Ops = append(c.Ops, op)
	}
	return c
}

// ---------------------------------------------------------------------
// reference model
// ---------------------------------------------------------------------

type hModel struct {
	rows     []HRow
	aligned  bool
	policy   int
	alphabet int
	dupOK    bool // the history renamed two rows to one name
}

func (m *hModel) length() int {
	if len(m.rows) == 0 {
		return -1
	}
	return len(m.rows[0].Seq)
}

func (m *hModel) has(name string) int {
	for i, r := range m.rows {
		if r.Name == name {
			return i
		}
	}
	return -1
}

func (m *hModel) dupNames() bool {
	seen := map[string]bool{}
	for _, r := range m.rows {
		if seen[r.Name] {
			return true
		}
		seen[r.Name] = true
	}
	return false
}

// add applies the documented duplicate-name policy and the length check.
func (m *hModel) add(name, seq string) (rejected bool) {
	if i := m.has(name); i >= 0 {
		if m.policy == align.IGNORE_NAME {
			return false
		}
		if m.policy == align.IGNORE_SEQUENCE && m.rows[i].Seq == seq {
			return false
		}
		for idx := 1; ; idx++ {
			tmp := fmt.Sprintf("%s_%04d", name, idx)
			if m.has(tmp) < 0 {
				name = tmp
				break
			}
		}
	}
	if m.aligned && len(m.rows) > 0 && len(seq) != m.length() {
		return true
	}
	m.rows = append(m.rows, HRow{name, seq})
	return false
}

func (m *hModel) clone() *hModel {
	n := *m
	n.rows = append([]HRow{}, m.rows...)
	return &n
}

func fit(seq string, l int) string {
	for len(seq) < l {
		seq += seq + "A"
	}
	return seq[:l]
}

// ---------------------------------------------------------------------
// observation through the public interface
// ---------------------------------------------------------------------

func observe(sb align.SeqBag) (rows []HRow, problem string) {
	n := sb.NbSequences()
	for i := 0; i < n; i++ {
		nm, ok1 := sb.GetSequenceNameById(i)
		s, ok2 := sb.GetSequenceById(i)
		if !ok1 || !ok2 {
			return rows, fmt.Sprintf("row %d of %d cannot be read by index", i, n)
		}
		rows = append(rows, HRow{nm, s})
	}
	return rows, ""
}

// accessPaths compares every access path with the by-index view.
func accessPaths(sb align.SeqBag, rows []HRow) string {
	n := len(rows)
	count := map[string]int{}
	for _, r := range rows {
		count[r.Name]++
	}
	var it, itc, ita []HRow
	sb.Iterate(func(nm, s string) bool { it = append(it, HRow{nm, s}); return false })
	sb.IterateChar(func(nm string, s []uint8) bool { itc = append(itc, HRow{nm, string(s)}); return false })
	sb.IterateAll(func(nm string, s []uint8, _ string) bool { ita = append(ita, HRow{nm, string(s)}); return false })
	for _, v := range []struct {
		what string
		rows []HRow
	}{{"Iterate", it}, {"IterateChar", itc}, {"IterateAll", ita}} {
		if len(v.rows) != n {
			return fmt.Sprintf("%s visits %d rows, NbSequences is %d", v.what, len(v.rows), n)
		}
		for i := range rows {
			if v.rows[i] != rows[i] {
				return fmt.Sprintf("%s row %d is %v, by index it is %v", v.what, i, v.rows[i], rows[i])
			}
		}
	}
	seqs := sb.Sequences()
	if len(seqs) != n {
		return fmt.Sprintf("Sequences() has %d entries, NbSequences is %d", len(seqs), n)
	}
	for i, r := range rows {
		if seqs[i] == nil || seqs[i].Name() != r.Name || seqs[i].Sequence() != r.Seq {
			return fmt.Sprintf("Sequences()[%d] differs from row %d (%v)", i, i, r)
		}
		so, ok := sb.Sequence(i)
		if !ok || so == nil || so.Name() != r.Name || so.Sequence() != r.Seq {
			return fmt.Sprintf("Sequence(%d) differs from row %d (%v)", i, i, r)
		}
		ch, ok := sb.GetSequenceCharById(i)
		if !ok || string(ch) != r.Seq {
			return fmt.Sprintf("GetSequenceCharById(%d) differs from row %d", i, i)
		}
		if count[r.Name] != 1 {
			// a name the caller gave to two rows: which of them a by-name lookup finds is
			// not defined, but the by-name paths must find the same one
			if k := sb.GetSequenceIdByName(r.Name); k >= 0 && k < n {
				if s, ok := sb.GetSequence(r.Name); !ok || s != rows[k].Seq {
					return fmt.Sprintf("GetSequenceIdByName(%q) = %d (holding %q) but GetSequence(%q) = (%q, %v): two by-name lookups find different rows", r.Name, k, rows[k].Seq, r.Name, s, ok)
				}
				if so, ok := sb.GetSequenceByName(r.Name); !ok || so == nil || so.Sequence() != rows[k].Seq {
					return fmt.Sprintf("GetSequenceIdByName(%q) = %d but GetSequenceByName(%q) returns another row", r.Name, k, r.Name)
				}
			} else {
				return fmt.Sprintf("GetSequenceIdByName(%q) = %d although row %d has that name", r.Name, k, i)
			}
			continue
		}
		if s, ok := sb.GetSequence(r.Name); !ok || s != r.Seq {
			return fmt.Sprintf("GetSequence(%q) = (%q, %v), row %d holds %q", r.Name, s, ok, i, r.Seq)
		}
		if ch, ok := sb.GetSequenceChar(r.Name); !ok || string(ch) != r.Seq {
			return fmt.Sprintf("GetSequenceChar(%q) = (%q, %v), row %d holds %q", r.Name, string(ch), ok, i, r.Seq)
		}
		if so, ok := sb.GetSequenceByName(r.Name); !ok || so == nil || so.Name() != r.Name || so.Sequence() != r.Seq {
			return fmt.Sprintf("GetSequenceByName(%q) does not return row %d", r.Name, i)
		}
		if so, ok := sb.SequenceByName(r.Name); !ok || so == nil || so.Name() != r.Name || so.Sequence() != r.Seq {
			return fmt.Sprintf("SequenceByName(%q) does not return row %d", r.Name, i)
		}
		if k := sb.GetSequenceIdByName(r.Name); k != i {
			return fmt.Sprintf("GetSequenceIdByName(%q) = %d, the row is at %d", r.Name, k, i)
		}
	}
	if _, ok := sb.GetSequenceById(n); ok {
		return fmt.Sprintf("GetSequenceById(%d) succeeds with %d rows", n, n)
	}
	if _, ok := sb.GetSequenceById(-1); ok {
		return "GetSequenceById(-1) succeeds"
	}
	return ""
}

func rowsEqual(a, b []HRow) string {
	if len(a) != len(b) {
		return fmt.Sprintf("%d rows, the model has %d", len(a), len(b))
	}
	for i := range a {
		if a[i] != b[i] {
			return fmt.Sprintf("row %d is %v, the model has %v", i, a[i], b[i])
		}
	}
	return ""
}

func multiset(rows []HRow) string {
	var s []string
	for _, r := range rows {
		s = append(s, r.Name+"\x00"+r.Seq)
	}
	sort.Strings(s)
	return strings.Join(s, "\x01")
}

func fmtRows(rows []HRow) string {
	var sb strings.Builder
	for _, r := range rows {
		fmt.Fprintf(&sb, "  %q %q\n", r.Name, r.Seq)
	}
	if len(rows) == 0 {
		sb.WriteString("  (empty)\n")
	}
	return sb.String()
}

func fmtOp(op HOp) string {
	s := op.Kind
	switch op.Kind {
	case "add":
		s += fmt.Sprintf("(name=%q seq=%q wronglen=%v existing=%v)", op.Name, op.Seq, op.J == 1, op.Flag)
	case "append", "concat":
		s += fmt.Sprintf("(%v wronglen=%v len=%d)", op.Other, op.J == 1, op.N)
	case "rename":
		s += fmt.Sprintf("(%v)", op.Pairs)
	case "rename-regexp":
		s += fmt.Sprintf("(%q -> %q)", op.Regex, op.Repl)
	case "filter-length":
		s += fmt.Sprintf("(min=%d max=%d)", op.I, op.J)
	case "append-identifier":
		s += fmt.Sprintf("(%q right=%v)", op.Name, op.Flag)
	case "replace":
		s += fmt.Sprintf("(%q -> %q)", op.Name, op.Seq)
	default:
		s += fmt.Sprintf("(n=%d i=%d flag=%v)", op.N, op.I, op.Flag)
	}
	return s
}

// ---------------------------------------------------------------------
// run
// ---------------------------------------------------------------------

func (c01) Run(ctx *Ctx, ci interface{}) (o Outcome) {
	c := ci.(*C01Case)
	verifrt.SetMapSeed(c.MapSeed, true)
	defer verifrt.SetMapSeed(0, false)
	m := &hModel{aligned: !c.Bag, policy: c.Policy, alphabet: align.NUCLEOTIDS}
	var cont align.SeqBag
	if c.Bag {
		b := align.NewSeqBag(align.NUCLEOTIDS)
		b.IgnoreIdentical(c.Policy)
		cont = b
	} else {
		a := align.NewAlign(align.NUCLEOTIDS)
		a.IgnoreIdentical(c.Policy)
		cont = a
	}
	var trail []string
	history := func() string {
		return fmt.Sprintf("container=%s policy=%d\nhistory:\n  %s\nmodel now:\n%s", map[bool]string{true: "sequence set", false: "alignment"}[c.Bag], c.Policy, strings.Join(trail, "\n  "), fmtRows(m.rows))
	}
	kinds := []string{}
	changed := 0
	curKind := "start"
	fail := func(inv, format string, a ...interface{}) {
		o.Fail(inv+":"+curKind, format+"\n%s", append(a, history())...)
	}
	defer func() {
		if p := recover(); p != nil {
			st := string(debug.Stack())
			if ep, ok := p.(verifrt.ExitPanic); ok {
				fail("exit", "goalign called os.Exit(%d) during a public operation\n%s", ep.Code, st)
				return
			}
			fs := goalignFuncs(st)
			if len(fs) == 0 {
				panic(p)
			}
			fail("panic:"+fs[0], "panic: %v\n%s", p, st)
		}
	}()

	// objects a copy was taken from (Clone, SubAlign, SelectSites, Transpose, RandSubAlign: the copy owns its data):
	// the history goes on with the copy, the original must stay what it was
	type leftBehind struct {
		obj  align.SeqBag
		rows []HRow
		by   string
	}
	var left []leftBehind
	trimMap := map[string]string{}
	nameMap := map[string]string{}
	// check is evaluated after every operation. modelled: the model fixes the content.
	check := func(modelled bool) bool {
		for _, lb := range left {
			now, _ := observe(lb.obj)
			if lb.by == "sample" {
				// a sample is a new container over the rows it drew: residues written through it may show in the
				// original (Sample hands the rows over, DESIGN.md 6.2), its names, its number of rows, their order and
				// the agreement of its access paths may not change
				if len(now) != len(lb.rows) {
					fail("original-changed-through-copy", "the container that sample was called on had %d rows and has %d after its result was operated on\nit was:\n%s", len(lb.rows), len(now), fmtRows(lb.rows))
					return false
				}
				for i := range now {
					if now[i].Name != lb.rows[i].Name || len(now[i].Seq) != len(lb.rows[i].Seq) {
						fail("original-changed-through-copy", "the container that sample was called on changed when its result was operated on: row %d was %v and is %v\nit was:\n%s", i, lb.rows[i], now[i], fmtRows(lb.rows))
						return false
					}
				}
				if d := accessPaths(lb.obj, now); d != "" {
					fail("original-changed-through-copy", "the container that sample was called on no longer answers the same through all its access paths after its result was operated on: %s\nit was:\n%s", d, fmtRows(lb.rows))
					return false
				}
				continue
			}
			if d := rowsEqual(now, lb.rows); d != "" {
				fail("original-changed-through-copy", "the object that %s was called on changed when its result was operated on: %s\nit was:\n%s", lb.by, d, fmtRows(lb.rows))
				return false
			}
		}
		rows, prob := observe(cont)
		if prob != "" {
			fail("unreadable-row", "%s", prob)
			return false
		}
		if al, ok := cont.(align.Alignment); ok && m.aligned {
			want := -1
			if len(rows) > 0 {
				want = len(rows[0].Seq)
			}
			for i, r := range rows {
				if len(r.Seq) != al.Length() {
					fail("ragged-or-stale-length", "row %d (%q) has %d residues, Length() reports %d\ncontainer:\n%s", i, r.Name, len(r.Seq), al.Length(), fmtRows(rows))
					return false
				}
			}
			if al.Length() != want {
				fail("ragged-or-stale-length", "Length() reports %d for a container whose rows say %d (an empty alignment reports -1)\ncontainer:\n%s", al.Length(), want, fmtRows(rows))
				return false
			}
		}
		if p := accessPaths(cont, rows); p != "" {
			fail("access-paths-disagree", "%s\ncontainer by index:\n%s", p, fmtRows(rows))
			return false
		}
		if !m.dupOK {
			seen := map[string]bool{}
			for _, r := range rows {
				if seen[r.Name] {
					fail("duplicate-names", "name %q occurs twice although no operation renamed two rows to one name\ncontainer:\n%s", r.Name, fmtRows(rows))
					return false
				}
				seen[r.Name] = true
			}
		}
		if modelled {
			if d := rowsEqual(rows, m.rows); d != "" {
				fail("differs-from-model", "%s\ncontainer:\n%s", d, fmtRows(rows))
				return false
			}
		} else {
			m.rows = rows // the documentation does not fix the result: re-read it
			if m.dupNames() {
				m.dupOK = true
			}
		}
		return true
	}

	for _, r := range c.Start {
		s := r.Seq
		if m.aligned && len(m.rows) > 0 {
			s = fit(s, m.length())
		}
		rej := m.add(r.Name, s)
		err := cont.AddSequence(r.Name, s, "")
		if (err != nil) != rej {
			fail("add-verdict", "building the start container: AddSequence(%q,%q) returns %v, the model says rejected=%v", r.Name, s, err, rej)
			return
		}
	}
	trail = append(trail, "start:\n"+fmtRows(m.rows))
	if !check(true) {
		return
	}

	for _, op := range c.Ops {
		curKind = op.Kind
		n := len(m.rows)
		al, isAl := cont.(align.Alignment)
		contBefore := cont
		var rowsBefore []HRow
		switch op.Kind {
		case "clone", "sub-align", "select-sites", "transpose", "rand-sub-align", "sample":
			rowsBefore, _ = observe(cont)
		}
		if op.Kind == "translate" && op.N == -1 && isAl && m.aligned && m.length()%3 != 2 {
			// the known finding: the three phases of L columns have different lengths unless L mod 3 = 2
			curKind = "translate-3-phases"
		}
		before := append([]HRow{}, m.rows...)
		modelled := true
		applied := true
		switch op.Kind {
		case "add":
			name, seq := op.Name, op.Seq
			if op.Flag && n > 0 {
				name = m.rows[op.I%n].Name
			}
			if m.aligned && n > 0 {
				if op.J == 1 {
					seq = fit(seq, m.length()+1+op.N%2)
				} else {
					seq = fit(seq, m.length())
				}
			} else {
				seq = fit(seq, 1+op.N)
			}
			op.Name, op.Seq = name, seq
			rej := m.add(name, seq)
			err := cont.AddSequence(name, seq, "")
			if rej {
				o.Add("rejected_operations", 1)
			}
			if (err != nil) != rej {
				trail = append(trail, fmtOp(op))
				fail("add-verdict", "AddSequence(%q, %q) returns error %v; by the documented policy and length rule it must be rejected=%v", name, seq, err, rej)
				return
			}
		case "append":
			if !isAl {
				applied = false
				break
			}
			if op.I%7 == 0 && n > 0 && n <= 6 && !m.dupNames() {
				// the alignment appended to itself: every row once more, under the duplicate-name policy
				was := append([]HRow{}, m.rows...)
				for _, r := range was {
					m.add(r.Name, r.Seq)
				}
				if err := al.Append(al); err != nil {
					trail = append(trail, fmtOp(op))
					fail("add-verdict", "Append of an alignment to itself returns %v", err)
					return
				}
				o.Add("probe_alignment_appended_to_itself", 1)
				break
			}
			other := align.NewAlign(align.NUCLEOTIDS)
			l := m.length()
			if l < 0 {
				l = 3
			}
			if op.J == 1 {
				l++
			}
			rej := false
			for _, r := range op.Other {
				s := fit(r.Seq, l)
				other.AddSequence(r.Name, s, "")
				if !rej {
					rej = m.add(r.Name, s)
				}
			}
			err := al.Append(other)
			if rej {
				o.Add("rejected_operations", 1)
			}
			if (err != nil) != rej {
				trail = append(trail, fmtOp(op))
				fail("add-verdict", "Append returns error %v; by the length rule it must be rejected=%v", err, rej)
				return
			}
		case "concat":
			if !isAl || m.dupNames() || cont.Alphabet() != align.NUCLEOTIDS {
				applied = false
				break
			}
			other := align.NewAlign(align.NUCLEOTIDS)
			ol := op.N
			var orows []HRow
			for _, r := range op.Other {
				s := fit(r.Seq, ol)
				if other.AddSequence(r.Name, s, "") == nil {
					orows = append(orows, HRow{r.Name, s})
				}
			}
			if len(orows) == 0 {
				ol = 0 // an alignment without rows has no columns to add
			}
			al2 := max(m.length(), 0)
			for i := range m.rows {
				found := false
				for _, r := range orows {
					if r.Name == m.rows[i].Name {
						m.rows[i].Seq += r.Seq
						found = true
					}
				}
				if !found {
					m.rows[i].Seq += strings.Repeat("-", ol)
				}
			}
			for _, r := range orows {
				if rowIndex(before, r.Name) < 0 {
					m.rows = append(m.rows, HRow{r.Name, strings.Repeat("-", al2) + r.Seq})
				}
			}
			if err := al.Concat(other); err != nil {
				trail = append(trail, fmtOp(op))
				fail("unexpected-error", "Concat of two alignments of the same alphabet returns %v", err)
				return
			}
		case "rename":
			mp := map[string]string{}
			for k := 0; k+1 < len(op.Pairs); k += 2 {
				old := op.Pairs[k]
				if strings.HasPrefix(old, "#") && n > 0 {
					var idx int
					fmt.Sscanf(old, "#%d", &idx)
					old = before[idx%n].Name
				}
				mp[old] = op.Pairs[k+1]
			}
			for i := range m.rows {
				if nw, ok := mp[m.rows[i].Name]; ok {
					m.rows[i].Name = nw
				}
			}
			cont.Rename(mp)
		case "rename-regexp":
			re := regexp.MustCompile(op.Regex)
			for i := range m.rows {
				m.rows[i].Name = re.ReplaceAllString(m.rows[i].Name, op.Repl)
			}
			// half of the time the map of old and new names is one object for the whole history (a caller that collects
			// every renaming it made): it is written to, never read from
			rmap := map[string]string{}
			if op.Flag {
				rmap = nameMap
			}
			if err := cont.RenameRegexp(op.Regex, op.Repl, rmap); err != nil {
				fail("unexpected-error", "RenameRegexp(%q) returns %v", op.Regex, err)
				return
			}
		case "append-identifier":
			for i := range m.rows {
				if op.Flag {
					m.rows[i].Name += op.Name
				} else {
					m.rows[i].Name = op.Name + m.rows[i].Name
				}
			}
			cont.AppendSeqIdentifier(op.Name, op.Flag)
		case "clean-names":
			modelled = false
			if op.Flag {
				cont.CleanNames(nameMap)
			} else {
				cont.CleanNames(nil)
			}
			// two names that differ only in the cleaned characters become one name: the caller's doing
			if rows, _ := observe(cont); (&hModel{rows: rows}).dupNames() {
				m.dupOK = true
			}
		case "trim-names":
			modelled = false
			// one map for the whole history, as a caller that shortens several inputs passes it again and again;
			// sometimes it already holds, for a later row, the short name an earlier row is about to be given
			if op.Flag && n >= 2 && !m.dupNames() {
				i := op.I % (n - 1)
				j := i + 1 + op.J%(n-1-i)
				short := strings.NewReplacer(":", "", "_", "").Replace(m.rows[i].Name)
				for len(short) < op.N-2 {
					short += "x"
				}
				if op.N-2 >= 0 && len(short) >= op.N-2 {
					short = short[:op.N-2] + "01"
					used := false
					for _, v := range trimMap {
						used = used || v == short
					}
					if _, ok := trimMap[m.rows[j].Name]; !ok && !used {
						trimMap[m.rows[j].Name] = short
						o.Add("trim_names_with_a_map_that_already_holds_a_colliding_short_name", 1)
					}
				}
			}
			cont.TrimNames(trimMap, op.N)
		case "trim-names-auto":
			modelled = false
			id := 1
			if op.Flag && !m.dupNames() && n > 0 {
				// the second alignment of a file under `trim name -a`: a copy with the same names went through the
				// map first, so every name is already a key of it - same names in, same short names out
				amap := map[string]string{}
				first, cerr := cont.CloneSeqBag()
				if cerr != nil {
					fail("unexpected-error", "CloneSeqBag returns %v", cerr)
					return
				}
				if err := first.TrimNamesAuto(amap, &id); err != nil {
					fail("unexpected-error", "TrimNamesAuto returns %v", err)
					return
				}
				want, _ := observe(first)
				if err := cont.TrimNamesAuto(amap, &id); err != nil {
					fail("unexpected-error", "TrimNamesAuto returns %v", err)
					return
				}
				for i := range m.rows {
					m.rows[i].Name = want[i].Name
				}
				modelled = true
				o.Add("probe_trim_names_auto_with_a_map_that_knows_every_name", 1)
				break
			}
			cont.TrimNamesAuto(map[string]string{}, &id)
		case "sort":
			sort.SliceStable(m.rows, func(a, b int) bool { return m.rows[a].Name < m.rows[b].Name })
			cont.Sort()
			if m.dupNames() {
				// order among equal names is not fixed: same rows, sorted
				rows, _ := observe(cont)
				sorted := sort.SliceIsSorted(rows, func(a, b int) bool { return rows[a].Name < rows[b].Name })
				if multiset(rows) != multiset(m.rows) || !sorted {
					trail = append(trail, fmtOp(op))
					fail("differs-from-model", "after Sort the rows are not the same rows in name order\ncontainer:\n%s", fmtRows(rows))
					return
				}
				modelled = false
			}
		case "shuffle":
			rand.Seed(op.Seed)
			cont.ShuffleSequences()
			rows, _ := observe(cont)
			if multiset(rows) != multiset(m.rows) {
				trail = append(trail, fmtOp(op))
				fail("differs-from-model", "ShuffleSequences changed the set of rows\ncontainer:\n%s", fmtRows(rows))
				return
			}
			modelled = false
		case "filter-length":
			var keep []HRow
			for _, r := range m.rows {
				if (op.I < 0 || len(r.Seq) >= op.I) && (op.J < 0 || len(r.Seq) <= op.J) {
					keep = append(keep, r)
				}
			}
			if m.dupNames() {
				modelled = false // rows are re-added through the duplicate-name policy
			}
			m.rows = keep
			if err := cont.FilterLength(op.I, op.J); err != nil {
				fail("unexpected-error", "FilterLength returns %v", err)
				return
			}
		case "deduplicate":
			var keep []HRow
			seen := map[string]bool{}
			for _, r := range m.rows {
				key := r.Seq
				if op.Flag && cont.Alphabet() == align.NUCLEOTIDS {
					key = strings.ReplaceAll(key, "N", "-")
				} else if op.Flag && cont.Alphabet() == align.AMINOACIDS {
					key = strings.ReplaceAll(key, "X", "-")
				}
				if !seen[key] {
					seen[key] = true
					keep = append(keep, r)
				}
			}
			if m.dupNames() {
				modelled = false
			}
			m.rows = keep
			if _, err := cont.Deduplicate(op.Flag); err != nil {
				fail("unexpected-error", "Deduplicate returns %v", err)
				return
			}
		case "remove-gap-sites":
			if !isAl || n == 0 {
				applied = false
				break
			}
			{
				// documented meaning: cutoff 0 removes the positions with at least one gap, another cutoff the positions
				// with a proportion of gaps >= cutoff; with ends only the runs of such positions at both ends
				cutoff := []float64{0, 0.5, 1}[op.N%3]
				l := m.length()
				rm := make([]bool, l)
				for k := 0; k < l; k++ {
					g := 0
					for _, r := range m.rows {
						if r.Seq[k] == '-' {
							g++
						}
					}
					if cutoff == 0 {
						rm[k] = g > 0
					} else {
						rm[k] = float64(g) >= cutoff*float64(len(m.rows))
					}
				}
				if op.Flag {
					a, b := 0, l-1
					for a < l && rm[a] {
						a++
					}
					for b >= 0 && rm[b] {
						b--
					}
					for k := a; k <= b; k++ {
						rm[k] = false
					}
				}
				for i := range m.rows {
					var sb strings.Builder
					for k := 0; k < l; k++ {
						if !rm[k] {
							sb.WriteByte(m.rows[i].Seq[k])
						}
					}
					m.rows[i].Seq = sb.String()
				}
				al.RemoveGapSites(cutoff, op.Flag)
			}
		case "trim-sequences":
			if !isAl || n == 0 {
				applied = false
				break
			}
			if op.N >= 0 && op.N < m.length() {
				for i := range m.rows {
					if op.Flag {
						m.rows[i].Seq = m.rows[i].Seq[op.N:]
					} else {
						m.rows[i].Seq = m.rows[i].Seq[:len(m.rows[i].Seq)-op.N]
					}
				}
				if err := al.TrimSequences(op.N, op.Flag); err != nil {
					fail("unexpected-error", "TrimSequences(%d) on length %d returns %v", op.N, len(before[0].Seq), err)
					return
				}
			} else if err := al.TrimSequences(op.N, op.Flag); err == nil {
				fail("add-verdict", "TrimSequences(%d) on an alignment of length %d reports no error", op.N, m.length())
				return
			}
		case "remove-majority-sites":
			if !isAl || n == 0 {
				applied = false
				break
			}
			modelled = false
			al.RemoveMajorityCharacterSites([]float64{0, 0.5, 0.75, 1}[op.N%4], op.Flag, op.I%2 == 0, op.J%2 == 0)
		case "remove-character-sites":
			if !isAl || n == 0 {
				applied = false
				break
			}
			modelled = false
			al.RemoveCharacterSites([]uint8{"ACGTN-"[op.I%6]}, []float64{0, 0.5, 0.75, 1}[op.N%4], op.Flag, op.J%2 == 0, false, false, op.J%3 == 0)
		case "compress":
			if !isAl || n == 0 {
				applied = false
				break
			}
			modelled = false
			{
				// documented meaning: identical sites are removed, the weights are their numbers of occurrences
				// (the order of the patterns may change): the set of columns and their counts are checked here
				cnt := map[string]int{}
				for k := 0; k < m.length(); k++ {
					col := make([]byte, len(m.rows))
					for i, r := range m.rows {
						col[i] = r.Seq[k]
					}
					cnt[string(col)]++
				}
				w := al.Compress()
				rows, _ := observe(cont)
				okc := len(rows) == len(m.rows) && len(w) == len(cnt)
				if okc && len(rows) > 0 {
					okc = len(rows[0].Seq) == len(cnt)
					for k := 0; okc && k < len(rows[0].Seq); k++ {
						col := make([]byte, len(rows))
						for i, r := range rows {
							if k < len(r.Seq) {
								col[i] = r.Seq[k]
							}
						}
						if cnt[string(col)] != w[k] || w[k] == 0 {
							okc = false
						}
						delete(cnt, string(col))
					}
				}
				if !okc {
					trail = append(trail, fmtOp(op))
					fail("differs-from-model", "Compress: the columns left are not the distinct columns of the alignment with their numbers of occurrences (weights %v)\ncontainer:\n%s", w, fmtRows(rows))
					return
				}
			}
		case "translate":
			if n == 0 {
				applied = false
				break
			}
			if cont.Alphabet() != align.NUCLEOTIDS {
				// not nucleotides (translated already): the operation is refused and leaves everything as it was,
				// the alphabet included
				ab := cont.Alphabet()
				var err error
				if isAl {
					err = al.Translate(op.N, 0)
				} else {
					err = cont.Translate(op.N, 0)
				}
				if err == nil {
					fail("add-verdict", "Translate of a container whose alphabet is %d (not nucleotides) reports no error", ab)
					return
				}
				if cont.Alphabet() != ab {
					fail("refused-operation-changed-the-container", "Translate was refused (%v) and the alphabet of the container went from %d to %d", err, ab, cont.Alphabet())
					return
				}
				o.Add("rejected_operations", 1)
				break
			}
			modelled = false
			{
				// phases 0-2: each row becomes the translation of its own residues from that phase on (goalign's own
				// Sequence.Translate is the reference for codon -> amino acid: C05 is not claimed), names and order stay
				// phase -1: each row becomes three, name_0 name_1 name_2, its translations in the three phases
				var want []HRow
				okRef := op.N >= -1 && op.N <= 2
				for _, r := range m.rows {
					if !okRef {
						break
					}
					for ph := 0; ph <= 2; ph++ {
						name := r.Name
						if op.N == -1 {
							name = fmt.Sprintf("%s_%d", r.Name, ph)
						} else if ph != op.N {
							continue
						}
						aa, err := align.NewSequence(r.Name, []uint8(r.Seq), "").Translate(ph, 0)
						if err != nil {
							okRef = false
							break
						}
						want = append(want, HRow{name, aa.Sequence()})
					}
				}
				if op.N == -1 && okRef {
					seen := map[string]bool{}
					for _, w := range want {
						okRef = okRef && !seen[w.Name]
						seen[w.Name] = true
					}
				}
				err := cont.Translate(op.N, 0)
				if err != nil {
					o.Add("operation_errors_outside_the_statement", 1)
				} else if okRef && !m.dupNames() {
					rows, _ := observe(cont)
					if d := rowsEqual(rows, want); d != "" {
						trail = append(trail, fmtOp(op))
						fail("differs-from-model", "Translate(phase %d): %s\ncontainer:\n%s", op.N, d, fmtRows(rows))
						return
					}
				}
			}
			m.dupOK = m.dupOK || false
		case "clone":
			var err error
			if isAl {
				var cl align.Alignment
				cl, err = al.Clone()
				if err == nil {
					cont = cl
				}
			} else {
				var cl align.SeqBag
				cl, err = cont.CloneSeqBag()
				if err == nil {
					cont = cl
				}
			}
			if err != nil {
				if m.dupNames() {
					applied = false // cloning re-adds the rows: two rows of one name fall under the policy
					break
				}
				fail("unexpected-error", "cloning returns %v", err)
				return
			}
			if m.dupNames() {
				modelled = false
			}
			cont.IgnoreIdentical(m.policy)
		case "sample":
			if m.dupNames() {
				applied = false // the sample is built by re-adding rows: two rows of one name fall under the policy
				break
			}
			rand.Seed(op.Seed)
			var smp align.SeqBag
			var err error
			if isAl {
				var s2 align.Alignment
				s2, err = al.Sample(op.N)
				if err == nil {
					smp = s2
				}
			} else {
				smp, err = cont.SampleSeqBag(op.N)
			}
			if op.N < 1 || op.N > n {
				if err == nil {
					fail("add-verdict", "sampling %d of %d rows reports no error", op.N, n)
					return
				}
				o.Add("rejected_operations", 1)
				break
			}
			if err != nil {
				fail("unexpected-error", "sampling %d of %d rows returns %v", op.N, n, err)
				return
			}
			cont = smp
			cont.IgnoreIdentical(m.policy)
			rows, _ := observe(cont)
			avail := map[string]int{}
			for _, r := range m.rows {
				avail[r.Name+"\x00"+r.Seq]++
			}
			for _, r := range rows {
				if avail[r.Name+"\x00"+r.Seq] == 0 {
					trail = append(trail, fmtOp(op))
					fail("differs-from-model", "the sample holds %v which is not a row of the container (or is drawn twice)", r)
					return
				}
				avail[r.Name+"\x00"+r.Seq]--
			}
			if len(rows) != op.N && !m.dupNames() {
				trail = append(trail, fmtOp(op))
				fail("differs-from-model", "%d rows sampled, %d returned", op.N, len(rows))
				return
			}
			modelled = false
		case "clear":
			m.rows = nil
			cont.Clear()
		case "sub-align":
			if !isAl || n == 0 {
				applied = false
				break
			}
			l := m.length()
			start := op.I % (l + 1)
			ln := op.N % (l - start + 1)
			sub, err := al.SubAlign(start, ln)
			if err != nil {
				o.Add("operation_errors_outside_the_statement", 1)
				break
			}
			for i := range m.rows {
				m.rows[i].Seq = m.rows[i].Seq[start : start+ln]
			}
			cont = sub
			cont.IgnoreIdentical(m.policy)
			if m.dupNames() {
				modelled = false
			}
		case "select-sites":
			if !isAl || n == 0 {
				applied = false
				break
			}
			{
				l := m.length()
				var sites []int
				for _, p := range op.Pairs {
					k, _ := strconv.Atoi(p)
					if l > 0 {
						sites = append(sites, k%l)
					}
				}
				sub, err := al.SelectSites(sites)
				if err != nil {
					fail("unexpected-error", "SelectSites(%v) on %d columns returns %v", sites, l, err)
					return
				}
				for i := range m.rows {
					b := make([]byte, len(sites))
					for k, st := range sites {
						b[k] = m.rows[i].Seq[st]
					}
					m.rows[i].Seq = string(b)
				}
				cont = sub
				cont.IgnoreIdentical(m.policy)
				if m.dupNames() {
					modelled = false
				}
			}
		case "transpose":
			if !isAl {
				applied = false
				break
			}
			{
				tr, err := al.Transpose()
				if err != nil {
					fail("unexpected-error", "Transpose() returns %v", err)
					return
				}
				var rows []HRow
				for k := 0; k < m.length(); k++ {
					b := make([]byte, n)
					for i := range m.rows {
						b[i] = m.rows[i].Seq[k]
					}
					rows = append(rows, HRow{fmt.Sprint(k), string(b)})
				}
				m.rows = rows
				m.dupOK = false
				cont = tr
				cont.IgnoreIdentical(m.policy)
			}
		case "mask":
			if !isAl || n == 0 || (cont.Alphabet() != align.NUCLEOTIDS && cont.Alphabet() != align.AMINOACIDS) {
				applied = false
				break
			}
			{
				l := m.length()
				start := op.I % (l + 1)
				ref, noref := "", false
				refrow := op.I % n
				if op.J > 0 && !m.dupNames() && m.rows[refrow].Name != "" { // an empty name means "no reference" to Mask
					ref, noref = m.rows[refrow].Name, op.J == 1
				}
				err := al.Mask(ref, start, op.N, op.Name, op.Flag, noref)
				if err != nil {
					fail("unexpected-error", "Mask(ref=%q start=%d length=%d replace=%q nogap=%v noref=%v) returns %v", ref, start, op.N, op.Name, op.Flag, noref, err)
					return
				}
				rep := byte('N')
				if cont.Alphabet() == align.AMINOACIDS {
					rep = 'X'
				}
				switch op.Name {
				case "GAP":
					rep = '-'
				case "X", "-":
					rep = op.Name[0]
				}
				for k := start; k < start+op.N && k < l; k++ {
					if op.Name == "MAJ" {
						// the most frequent character of the column; a tie is not decided by the documentation
						cnt := map[byte]int{}
						best, nbest := 0, 0
						for _, r := range m.rows {
							cnt[r.Seq[k]]++
						}
						for ch, v := range cnt {
							if v > best {
								best, nbest, rep = v, 1, ch
							} else if v == best {
								nbest++
							}
						}
						if nbest > 1 {
							modelled = false
							break
						}
					}
					refch := byte(0)
					if noref {
						refch = m.rows[refrow].Seq[k]
					}
					for i := range m.rows {
						ch := m.rows[i].Seq[k]
						if (op.Flag && ch == '-') || (noref && ch == refch) {
							continue
						}
						b := []byte(m.rows[i].Seq)
						b[k] = rep
						m.rows[i].Seq = string(b)
					}
				}
			}
		case "remove-character-seqs", "remove-gap-seqs":
			if !isAl {
				applied = false
				break
			}
			{
				gapsOnly := op.Kind == "remove-gap-seqs" // RemoveGapSeqs(cutoff, ignoreNs): the same for the gap character
				ch := byte('-')
				cutoff := []float64{0, 0.5, 1}[(op.N%3+3)%3]
				ic, ig, in := false, false, op.Flag
				if !gapsOnly {
					ch = op.Name[0]
					cutoff = float64(op.N) / 4
					ic, ig, in = op.J&1 != 0, op.J&2 != 0, op.J&4 != 0
				}
				eff := cutoff
				if eff < 0 || eff > 1 {
					eff = 0
				}
				var keep []HRow
				undecided := false
				for _, r := range m.rows {
					nb, total := 0, 0
					for k := 0; k < len(r.Seq); k++ {
						x := r.Seq[k]
						if x == ch || (ic && strings.EqualFold(string(x), string(ch))) {
							nb++
						}
						if !(ig && x == '-') && !(in && (x == 'N' || x == 'n')) {
							total++
						}
					}
					if total == 0 && eff > 0 {
						undecided = true // a share of nothing: the documentation does not say
					}
					if (eff > 0 && float64(nb) >= eff*float64(total)) || (eff == 0 && nb > 0) {
						continue
					}
					keep = append(keep, r)
				}
				var got int
				if gapsOnly {
					got = al.RemoveGapSeqs(cutoff, in)
				} else {
					got = al.RemoveCharacterSeqs(ch, cutoff, ic, ig, in)
				}
				if cont.Alphabet() != align.NUCLEOTIDS && in {
					undecided = true // the "any" character is X there
				}
				if undecided || m.dupNames() {
					modelled = false
				} else {
					if got != len(m.rows)-len(keep) {
						fail("differs-from-model", "RemoveCharacterSeqs(%q, cutoff %v, ignoreCase=%v ignoreGaps=%v ignoreNs=%v) reports %d removed rows, the model removes %d", ch, cutoff, ic, ig, in, got, len(m.rows)-len(keep))
						return
					}
					m.rows = keep
				}
			}
		case "replace-match-chars":
			if !isAl {
				applied = false
				break
			}
			al.ReplaceMatchChars()
			for i := 1; i < n; i++ {
				b := []byte(m.rows[i].Seq)
				for k := range b {
					if b[k] == '.' && m.rows[0].Seq[k] != '.' {
						b[k] = m.rows[0].Seq[k]
					}
				}
				m.rows[i].Seq = string(b)
			}
		case "rarefy":
			// a sample of the rows, drawn with the given counts as weights: the rows that are kept stay what they were and
			// where they were relative to each other (the list the sample is taken from is a list, not a set)
			if !isAl || n < 2 || m.dupNames() {
				applied = false
				break
			}
			{
				counts := map[string]int{}
				tot := 0
				for i, r := range m.rows {
					counts[r.Name] = 1 + (i+op.J)%3
					tot += counts[r.Name]
				}
				nb := 1 + op.N%(tot-1)
				rand.Seed(op.Seed)
				smp, err := al.Rarefy(nb, counts)
				if err != nil {
					o.Add("operation_errors_outside_the_statement", 1)
					break
				}
				rows, _ := observe(smp)
				k := 0
				for _, r := range rows {
					for k < len(m.rows) && m.rows[k] != r {
						k++
					}
					if k == len(m.rows) {
						fail("differs-from-model", "Rarefy(%d): the sample is not a sub-list of the rows in their order: %v is out of place or not a row\nsample:\n%s", nb, r, fmtRows(rows))
						return
					}
					k++
				}
				cont = smp
				cont.IgnoreIdentical(m.policy)
				modelled = false
			}
		case "translate-by-reference":
			// codon by codon along a reference row, gaps of the reference skipped: the documentation fixes the result by
			// examples only; held to the invariants (every row as long as Length() says, names and order kept)
			if !isAl || n == 0 || cont.Alphabet() != align.NUCLEOTIDS || m.dupNames() {
				applied = false
				break
			}
			modelled = false
			if err := al.TranslateByReference(op.N%3, 0, m.rows[op.I%n].Name); err != nil {
				o.Add("operation_errors_outside_the_statement", 1)
			} else {
				rows, _ := observe(cont)
				if len(rows) != n {
					fail("differs-from-model", "TranslateByReference changes the number of rows from %d to %d", n, len(rows))
					return
				}
				for i := range rows {
					if rows[i].Name != m.rows[i].Name {
						fail("differs-from-model", "TranslateByReference changes the name of row %d from %q to %q", i, m.rows[i].Name, rows[i].Name)
						return
					}
				}
			}
		case "swap", "recombine", "shuffle-sites", "add-gaps", "mutate", "simulate-rogue", "mask-unique", "mask-occurences", "rand-sub-align":
			// randomised or data-dependent edits: held to the invariants, to what they may not touch (names, order,
			// number of rows, length) and to what they conserve; the model is then re-read
			if !isAl || n == 0 {
				applied = false
				break
			}
			{
				rand.Seed(op.Seed)
				modelled = false
				r1, r2 := float64(op.N)/4, float64(op.J)/4
				l := m.length()
				wantLen := l
				var err error
				switch op.Kind {
				case "swap":
					err = al.Swap(r1, r2)
				case "recombine":
					err = al.Recombine(r1, r2, op.Flag)
				case "shuffle-sites":
					al.ShuffleSites(r1, r2, op.Flag)
				case "add-gaps":
					al.AddGaps(r1, r2)
				case "mutate":
					al.Mutate(r1 / 4)
				case "simulate-rogue":
					al.SimulateRogue(r1, r2)
				case "mask-unique", "mask-occurences":
					ref := ""
					if op.J == 1 && !m.dupNames() {
						ref = m.rows[op.I%n].Name
					}
					if cont.Alphabet() != align.NUCLEOTIDS && cont.Alphabet() != align.AMINOACIDS {
						applied = false
					} else if op.Kind == "mask-unique" {
						err = al.MaskUnique(ref, op.Name)
					} else {
						err = al.MaskOccurences(ref, op.N, op.Name)
					}
				case "rand-sub-align":
					var sub align.Alignment
					sub, err = al.RandSubAlign(op.N, op.Flag)
					if op.N > l || op.N < 1 {
						if err == nil && op.N > l {
							fail("add-verdict", "RandSubAlign(%d) of %d columns reports no error", op.N, l)
							return
						}
						if err != nil {
							o.Add("rejected_operations", 1)
							err = nil
							break
						}
					}
					if err == nil {
						cont = sub
						cont.IgnoreIdentical(m.policy)
						wantLen = op.N
					}
				}
				if !applied {
					break
				}
				if err != nil {
					o.Add("operation_errors_outside_the_statement", 1)
					break
				}
				rows, prob := observe(cont)
				if prob != "" {
					fail("unreadable-row", "%s", prob)
					return
				}
				if len(rows) != n && !m.dupNames() {
					fail("differs-from-model", "%s changes the number of rows from %d to %d", op.Kind, n, len(rows))
					return
				}
				for i := range rows {
					if i < n && !m.dupNames() && rows[i].Name != m.rows[i].Name {
						fail("differs-from-model", "%s changes the name of row %d from %q to %q", op.Kind, i, m.rows[i].Name, rows[i].Name)
						return
					}
					if len(rows[i].Seq) != wantLen {
						fail("ragged-or-stale-length", "%s: row %d (%q) has %d residues, %d expected\ncontainer:\n%s", op.Kind, i, rows[i].Name, len(rows[i].Seq), wantLen, fmtRows(rows))
						return
					}
				}
				colset := func(rs []HRow, k int) string {
					b := make([]byte, len(rs))
					for i := range rs {
						b[i] = rs[i].Seq[k]
					}
					sort.Slice(b, func(x, y int) bool { return b[x] < b[y] })
					return string(b)
				}
				if len(rows) == n && !m.dupNames() {
					switch {
					case op.Kind == "swap", op.Kind == "recombine" && op.Flag, op.Kind == "shuffle-sites" && op.J == 0:
						// residues move between rows inside their column
						for k := 0; k < l; k++ {
							if colset(rows, k) != colset(m.rows, k) {
								fail("differs-from-model", "%s: column %d holds %q, it held %q (residues may only move between rows of one column)", op.Kind, k, colset(rows, k), colset(m.rows, k))
								return
							}
						}
					case op.Kind == "add-gaps":
						for i := range rows {
							for k := 0; k < l; k++ {
								if rows[i].Seq[k] != m.rows[i].Seq[k] && rows[i].Seq[k] != '-' {
									fail("differs-from-model", "AddGaps: row %d site %d changes from %q to %q", i, k, m.rows[i].Seq[k], rows[i].Seq[k])
									return
								}
							}
						}
					case op.Kind == "simulate-rogue":
						// a rogue row is a permutation of its own residues
						for i := range rows {
							a, b := []byte(rows[i].Seq), []byte(m.rows[i].Seq)
							sort.Slice(a, func(x, y int) bool { return a[x] < a[y] })
							sort.Slice(b, func(x, y int) bool { return b[x] < b[y] })
							if string(a) != string(b) {
								fail("differs-from-model", "SimulateRogue: row %d holds other residues than before (%q, was %q)", i, rows[i].Seq, m.rows[i].Seq)
								return
							}
						}
					case op.Kind == "rand-sub-align" && op.Flag:
						// consecutive: one window of the alignment
						found := false
						for st := 0; st+wantLen <= l && !found; st++ {
							found = true
							for i := range rows {
								if m.rows[i].Seq[st:st+wantLen] != rows[i].Seq {
									found = false
									break
								}
							}
						}
						if !found {
							fail("differs-from-model", "RandSubAlign(%d, consecutive): the result is no window of the alignment\ncontainer:\n%s", wantLen, fmtRows(rows))
							return
						}
					}
				}
			}
		case "unalign":
			for i := range m.rows {
				m.rows[i].Seq = strings.ReplaceAll(m.rows[i].Seq, "-", "")
			}
			m.aligned = false
			cont = cont.Unalign()
			cont.IgnoreIdentical(m.policy)
			if m.dupNames() {
				modelled = false
			}
		case "replace":
			for i := range m.rows {
				m.rows[i].Seq = strings.ReplaceAll(m.rows[i].Seq, op.Name, op.Seq)
			}
			if err := cont.Replace(op.Name, op.Seq, false); err != nil {
				fail("unexpected-error", "Replace(%q,%q) returns %v", op.Name, op.Seq, err)
				return
			}
		case "replace-regex":
			// a regular expression and a replacement; in an alignment the rows must keep their length (an error otherwise,
			// after which nothing is promised: the history ends there)
			{
				re := regexp.MustCompile(op.Regex)
				want := make([]HRow, len(m.rows))
				keeps := true
				for i, r := range m.rows {
					want[i] = HRow{r.Name, re.ReplaceAllString(r.Seq, op.Repl)}
					keeps = keeps && len(want[i].Seq) == len(r.Seq)
				}
				err := cont.Replace(op.Regex, op.Repl, true)
				if m.aligned && !keeps {
					if err == nil {
						trail = append(trail, fmtOp(op))
						fail("add-verdict", "Replace(%q -> %q, regexp) changes the length of aligned rows and reports no error", op.Regex, op.Repl)
						return
					}
					o.Add("rejected_operations", 1)
					o.Nontrivial = changed >= 2
					return
				}
				if err != nil {
					fail("unexpected-error", "Replace(%q -> %q, regexp) returns %v", op.Regex, op.Repl, err)
					return
				}
				m.rows = want
			}
		case "to-upper":
			for i := range m.rows {
				m.rows[i].Seq = strings.ToUpper(m.rows[i].Seq)
			}
			cont.ToUpper()
		case "to-lower":
			for i := range m.rows {
				m.rows[i].Seq = strings.ToLower(m.rows[i].Seq)
			}
			cont.ToLower()
		case "set-policy":
			m.policy = op.N
			cont.IgnoreIdentical(op.N)
		default:
			panic("op " + op.Kind)
		}
		if !applied {
			o.Add("operations_not_applicable_in_this_state", 1)
			continue
		}
		if rowsBefore != nil && cont != contBefore && len(left) < 4 {
			left = append(left, leftBehind{contBefore, rowsBefore, op.Kind})
		}
		trail = append(trail, fmtOp(op))
		kinds = append(kinds, op.Kind)
		o.Add("operations_applied", 1)
		o.Add("op_"+op.Kind, 1)
		if m.dupNames() && (op.Kind == "rename" || op.Kind == "rename-regexp" || op.Kind == "append-identifier" || op.Kind == "clean-names") {
			m.dupOK = true
		}
		if !check(modelled) {
			return
		}
		if d := rowsEqual(before, m.rows); d != "" {
			changed++
		}
	}
	o.Nontrivial = changed >= 2
	o.Sig = hash64(c.Bag, len(c.Start), strings.Join(kinds, ","))
	if o.Nontrivial {
		o.Sample = map[string]interface{}{"container": map[bool]string{true: "sequence set", false: "alignment"}[c.Bag], "policy": c.Policy, "start_rows": len(c.Start), "history": trail[1:]}
	}
	return
}

func rowIndex(rows []HRow, name string) int {
	for i, r := range rows {
		if r.Name == name {
			return i
		}
	}
	return -1
}

func (c01) Shrink(ci interface{}) []interface{} {
	c := ci.(*C01Case)
	var out []interface{}
	add := func(f func(n *C01Case) bool) {
		n := cloneCase(c01{}, c).(*C01Case)
		if f(n) {
			out = append(out, n)
		}
	}
	// drop operations: halves, then one at a time from the front (the last one usually exposes the failure)
	if len(c.Ops) > 1 {
		h := len(c.Ops) / 2
		add(func(n *C01Case) bool { n.Ops = n.Ops[h:]; return true })
		add(func(n *C01Case) bool { n.Ops = n.Ops[:h]; return true })
		for i := range c.Ops {
			i := i
			add(func(n *C01Case) bool { n.Ops = append(n.Ops[:i:i], n.Ops[i+1:]...); return true })
		}
	}
	for i := range c.Start {
		i := i
		add(func(n *C01Case) bool { n.Start = append(n.Start[:i:i], n.Start[i+1:]...); return true })
	}
	if len(c.Start) > 0 && len(c.Start[0].Seq) > 1 && !c.Bag {
		add(func(n *C01Case) bool {
			for i := range n.Start {
				if len(n.Start[i].Seq) > 1 {
					n.Start[i].Seq = n.Start[i].Seq[:len(n.Start[i].Seq)-1]
				}
			}
			return true
		})
	}
	if c.Policy != align.IGNORE_NONE {
		add(func(n *C01Case) bool { n.Policy = align.IGNORE_NONE; return true })
	}
	for i, op := range c.Ops {
		i := i
		if len(op.Other) > 1 {
			add(func(n *C01Case) bool { n.Ops[i].Other = n.Ops[i].Other[:1]; return true })
		}
		if len(op.Pairs) > 2 {
			add(func(n *C01Case) bool { n.Ops[i].Pairs = n.Ops[i].Pairs[:2]; return true })
		}
	}
	return out
}
