#!/bin/sh
# Builds the verification framework from files on disk only (offline).
set -e
cd "$(dirname "$0")"
export GOFLAGS=-mod=mod GOPROXY=off GOSUMDB=off GOTOOLCHAIN=local
mkdir -p bin evidence replays
(cd tools && go build -o ../bin/seamgen ./seamgen && go build -o ../bin/vcheck ./vcheck)
# warm the build cache: go1.26.8 std (plain and race), goalign with the overlay, the harness
tmp=$(mktemp -d)
trap 'rm -rf "$tmp"' EXIT
mkdir -p "$tmp/ov" "$tmp/sim"
./bin/seamgen /repo "$tmp/ov" "$(pwd)/verifrt" >/dev/null
cp sim/*.go sim/go.mod "$tmp/sim/" && cp /repo/go.sum "$tmp/sim/go.sum"
(cd "$tmp/sim" && go1.26.8 test -c -tags verif -overlay "$tmp/ov/overlay.json" -vet=off -o "$tmp/sim.test" . ) &
(cd "$tmp/sim" && go1.26.8 test -c -race -tags verif -overlay "$tmp/ov/overlay.json" -vet=off -o "$tmp/sim.race.test" . ) &
(cd /repo && go build -tags verif -overlay "$tmp/ov/overlay.json" -o "$tmp/goalign" . ) &
wait
echo "setup ok"
