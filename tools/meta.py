import json
def meta(id,prop,pkg,summary,needs,caught,status="kept",check=None):
    d={"property":prop,"status":status,"summary":summary,"needs":needs,"caught_by":caught,"pkg":pkg,"id":id,
       "demo":"go test -vet=off -count=1 -run VerifDemo "+pkg,
       "confirmed":{"suite_with_change":"green (demo moved aside)","demo_with_change":"fails","demo_without_change":"passes",
        "check":check or "bin/vcheck %s --tier quick --no-evidence with the patch applied to /repo and undone afterwards: exit 1"%prop}}
    json.dump(d,open('/verif/seeded/%s/meta.json'%id,'w'),indent=1)
