// seamgen type-checks the goalign tree as it is on disk and writes rewritten
// copies of the files that contain a source of nondeterminism for which
// goalign has no seam, plus an overlay JSON for `go build -overlay`.
//
// The AST is only used to FIND positions; every edit is spliced into the
// original text on the same line so that all line numbers are preserved.
//
// Rules (DESIGN.md section 2.2):
//
//	R1  for k, v := range <map>   -> iterate verifrt.Keys(<map>, site)
//	R2  time.Now                  -> verifrt.Now
//	R3  os.Exit                   -> verifrt.Exit
//	R4  yield points before send/close/Lock/Wait/Done, after receive, after close, before every sync/atomic operation;
//	    `go f(args)` -> verifrt.Go(site, ...)
//
// usage: seamgen <repo> <outdir> <verifrt-src-dir>
package main

import (
	"encoding/json"
	"fmt"
	"go/ast"
	"go/token"
	"go/types"
	"os"
	"path/filepath"
	"sort"
	"strings"

	"golang.org/x/tools/go/packages"
)

const rtPath = "github.com/evolbioinfo/goalign/verifrt"

type edit struct {
	off, end int // replace [off,end) by text
	text     string
	seq      int
}

type fileEdits struct {
	src   []byte
	edits []edit
	uses  map[string]bool // pkg.Sel expressions we replaced (keep the import alive)
}

func (fe *fileEdits) ins(off int, text string) {
	fe.edits = append(fe.edits, edit{off, off, text, len(fe.edits)})
}
func (fe *fileEdits) repl(off, end int, text string) {
	fe.edits = append(fe.edits, edit{off, end, text, len(fe.edits)})
}

func fail(format string, a ...interface{}) {
	fmt.Fprintf(os.Stderr, "seamgen: "+format+"\n", a...)
	os.Exit(2)
}

func main() {
	if len(os.Args) != 4 {
		fail("usage: seamgen <repo> <outdir> <verifrt-src-dir>")
	}
	repo, out, rtdir := os.Args[1], os.Args[2], os.Args[3]
	repo, _ = filepath.Abs(repo)
	cfg := &packages.Config{
		Mode: packages.NeedName | packages.NeedFiles | packages.NeedCompiledGoFiles | packages.NeedSyntax |
			packages.NeedTypes | packages.NeedTypesInfo | packages.NeedImports | packages.NeedDeps,
		Dir: repo,
	}
	pkgs, err := packages.Load(cfg, "./...")
	if err != nil {
		fail("load: %v", err)
	}
	if packages.PrintErrors(pkgs) > 0 {
		fail("the tree does not type-check")
	}
	overlay := map[string]string{}
	counts := map[string]int{}
	var sites []string
	n := 0
	for _, p := range pkgs {
		if strings.HasSuffix(p.PkgPath, "/verifrt") {
			continue
		}
		for fi, f := range p.Syntax {
			if fi >= len(p.CompiledGoFiles) {
				continue
			}
			fname := p.CompiledGoFiles[fi]
			if !strings.HasPrefix(fname, repo+"/") || !strings.HasSuffix(fname, ".go") {
				continue
			}
			src, err := os.ReadFile(fname)
			if err != nil {
				fail("%v", err)
			}
			fe := &fileEdits{src: src, uses: map[string]bool{}}
			rel := strings.TrimPrefix(fname, repo+"/")
			off := func(pos token.Pos) int { return p.Fset.Position(pos).Offset }
			text := func(nd ast.Node) string { return string(src[off(nd.Pos()):off(nd.End())]) }
			siteStr := func(kind string, pos token.Pos) string {
				return fmt.Sprintf("%s@%s:%d", kind, rel, p.Fset.Position(pos).Line)
			}
			site := func(kind string, pos token.Pos) string {
				s := siteStr(kind, pos)
				sites = append(sites, s)
				return fmt.Sprintf("%q", s)
			}
			yieldBefore := func(kind string, s ast.Node) {
				fe.ins(off(s.Pos()), "verifrt.Yield("+site(kind, s.Pos())+"); ")
				counts[kind]++
			}
			after := func(s ast.Node, text string) { fe.ins(off(s.End()), "; "+text) }
			// statements that sit directly in a statement list (only there can a
			// statement be prefixed or suffixed by another one)
			inList := map[ast.Stmt]bool{}
			ast.Inspect(f, func(nd ast.Node) bool {
				switch b := nd.(type) {
				case *ast.BlockStmt:
					for _, s := range b.List {
						inList[s] = true
					}
				case *ast.CaseClause:
					for _, s := range b.Body {
						inList[s] = true
					}
				case *ast.CommClause:
					for _, s := range b.Body {
						inList[s] = true
					}
				}
				return true
			})
			ast.Inspect(f, func(nd ast.Node) bool {
				switch x := nd.(type) {
				case *ast.RangeStmt:
					t := p.TypesInfo.TypeOf(x.X)
					if t == nil {
						return true
					}
					switch t.Underlying().(type) {
					case *types.Chan:
						fe.ins(off(x.Body.Lbrace)+1, " verifrt.Yield("+site("recv", x.Pos())+");")
						counts["recv"]++
					case *types.Map:
						n++
						kv := fmt.Sprintf("verifK%d", n)
						okv := fmt.Sprintf("verifOk%d", n)
						mv := fmt.Sprintf("verifM%d", n)
						mexpr := text(x.X)
						tok := ":="
						if x.Tok == token.ASSIGN {
							tok = "="
						}
						body := ""
						blank := func(e ast.Expr) bool {
							if e == nil {
								return true
							}
							id, ok := e.(*ast.Ident)
							return ok && id.Name == "_"
						}
						if !blank(x.Key) {
							ks := text(x.Key)
							body += fmt.Sprintf(" %s %s %s;", ks, tok, kv)
							if tok == ":=" {
								body += fmt.Sprintf(" _ = %s;", ks)
							}
						}
						if !blank(x.Value) {
							vs := text(x.Value)
							if tok == ":=" {
								body += fmt.Sprintf(" %s, %s := %s[%s]; if !%s { continue }; _ = %s;", vs, okv, mv, kv, okv, vs)
							} else {
								body += fmt.Sprintf(" var %s bool; %s, %s = %s[%s]; if !%s { continue };", okv, vs, okv, mv, kv, okv)
							}
						} else {
							body += fmt.Sprintf(" if _, %s := %s[%s]; !%s { continue };", okv, mv, kv, okv)
						}
						// the range expression is evaluated once, as in the original statement
						hdr := fmt.Sprintf("%s := %s; for _, %s := range verifrt.Keys(%s, %q) {%s",
							mv, mexpr, kv, mv, siteStr("map", x.Pos()), body)
						if inList[x] {
							// `m := e; for ...` would leak m into the enclosing scope: wrap in a block
							fe.repl(off(x.Pos()), off(x.Body.Lbrace)+1, "{ "+hdr)
							fe.ins(off(x.End()), " }")
						} else {
							// labeled statement etc.: evaluate the map expression in the loop header
							hdr = fmt.Sprintf("for _, %s := range verifrt.Keys(%s, %q) {%s",
								kv, mexpr, siteStr("map", x.Pos()), strings.ReplaceAll(body, mv+"[", "("+mexpr+")["))
							fe.repl(off(x.Pos()), off(x.Body.Lbrace)+1, hdr)
						}
						counts["maprange"]++
					}
				case *ast.SelectorExpr:
					if id, ok := x.X.(*ast.Ident); ok {
						if pn, ok := p.TypesInfo.Uses[id].(*types.PkgName); ok {
							path := pn.Imported().Path()
							if (path == "time" && x.Sel.Name == "Now") || (path == "os" && x.Sel.Name == "Exit") {
								fe.repl(off(x.Pos()), off(x.End()), "verifrt."+x.Sel.Name)
								fe.uses[id.Name+"."+x.Sel.Name] = true
								counts[path+"."+x.Sel.Name]++
							}
						}
					}
				case *ast.GoStmt:
					fl, isLit := x.Call.Fun.(*ast.FuncLit)
					switch {
					case isLit && len(x.Call.Args) == 0:
						fe.repl(off(x.Pos()), off(fl.Pos()), "verifrt.Go("+site("go", x.Pos())+", ")
						fe.repl(off(fl.End()), off(x.End()), ")")
						counts["go"]++
					case goArgsCapturable(p, x.Call):
						// go F(a, b) -> func(){ verifF := F; v0, v1 := a, b; verifrt.Go(site, func(){ verifF(v0, v1) }) }()
						// F and the arguments are evaluated by the parent at the go statement, as Go does.
						// F's own text stays in place so that edits inside a function literal survive.
						var names []string
						for i := range x.Call.Args {
							names = append(names, fmt.Sprintf("verifA%d", i))
						}
						callArgs := strings.Join(names, ", ")
						if x.Call.Ellipsis.IsValid() {
							callArgs += "..."
						}
						post := "; "
						if len(names) > 0 {
							var as []string
							for _, a := range x.Call.Args {
								as = append(as, text(a))
							}
							post += strings.Join(names, ", ") + " := " + strings.Join(as, ", ") + "; "
						}
						post += "verifrt.Go(" + site("go", x.Pos()) + ", func() { verifF(" + callArgs + ") }) }()"
						fe.repl(off(x.Pos()), off(x.Call.Fun.Pos()), "func() { verifF := ")
						fe.repl(off(x.Call.Fun.End()), off(x.End()), post)
						counts["go"]++
					default:
						counts["go-unhandled"]++
					}
				case *ast.CallExpr:
					// sync/atomic operations (package functions and methods of the atomic types)
					if se, ok := x.Fun.(*ast.SelectorExpr); ok && isAtomicOp(p, se) {
						fe.repl(off(se.Pos()), off(se.End()), "verifrt.YieldThen("+text(se)+", "+site("atomic", x.Pos())+")")
						counts["atomic"]++
					}
				case *ast.SendStmt:
					if inList[x] {
						yieldBefore("send", x)
					}
				case *ast.CommClause:
					// select { case v := <-ch: BODY } : yield as the first thing in BODY
					if x.Comm != nil && hasRecv(x.Comm) {
						fe.ins(off(x.Colon)+1, " verifrt.Yield("+site("recv", x.Pos())+");")
						counts["recv"]++
					}
				case *ast.DeferStmt:
					if id, ok := x.Call.Fun.(*ast.Ident); ok && id.Name == "close" {
						if _, isb := p.TypesInfo.Uses[id].(*types.Builtin); isb {
							fe.repl(off(x.Call.Pos()), off(x.Call.End()), "func() { verifrt.Yield("+site("close", x.Pos())+"); "+text(x.Call)+"; verifrt.Yield("+site("closed", x.Pos())+") }()")
							counts["close"]++
						}
					}
					if k := syncCall(p, x.Call); k == "Done" || k == "Unlock" {
						call := text(x.Call)
						pre, post := "", ""
						if k == "Done" {
							pre = "verifrt.Yield(" + site("done", x.Pos()) + "); "
							counts["done"]++
						} else {
							post = "; verifrt.Unlocked()"
						}
						fe.repl(off(x.Call.Pos()), off(x.Call.End()), "func() { "+pre+call+post+" }()")
					}
				case *ast.ExprStmt:
					if !inList[x] {
						return true
					}
					if call, ok := x.X.(*ast.CallExpr); ok {
						if id, ok := call.Fun.(*ast.Ident); ok && id.Name == "close" {
							if _, isb := p.TypesInfo.Uses[id].(*types.Builtin); isb {
								yieldBefore("close", x)
								// and after it: what the closing goroutine does next (set an error field, close a file) and what
								// the receivers that see the close do are two orders the scheduler must be able to produce
								after(x, "verifrt.Yield("+site("closed", x.Pos())+")")
							}
						}
						switch syncCall(p, call) {
						case "Lock":
							yieldBefore("lock", x)
							after(x, "verifrt.Locked()")
						case "Unlock":
							after(x, "verifrt.Unlocked()")
						case "Wait":
							yieldBefore("wait", x)
						case "Done":
							yieldBefore("done", x)
						}
					}
					if hasRecv(x) {
						after(x, "verifrt.Yield("+site("recv", x.Pos())+")")
						counts["recv"]++
					}
				case *ast.AssignStmt:
					if inList[x] && hasRecv(x) {
						after(x, "verifrt.Yield("+site("recv", x.Pos())+")")
						counts["recv"]++
					}
				}
				return true
			})
			if len(fe.edits) == 0 {
				continue
			}
			// import on the package clause line; keep replaced imports alive at EOF
			fe.ins(off(f.Name.End()), "; import \""+rtPath+"\"")
			tail := "\n"
			var us []string
			for u := range fe.uses {
				us = append(us, u)
			}
			sort.Strings(us)
			for _, u := range us {
				tail += "var _ = " + u + "\n"
			}
			fe.ins(len(src), tail)
			sort.SliceStable(fe.edits, func(a, b int) bool {
				if fe.edits[a].off != fe.edits[b].off {
					return fe.edits[a].off > fe.edits[b].off
				}
				return fe.edits[a].seq > fe.edits[b].seq
			})
			// edits are applied back to front; a replaced range must not contain another edit
			for i := 1; i < len(fe.edits); i++ {
				lo, hi := fe.edits[i], fe.edits[i-1] // lo.off <= hi.off
				if lo.end > hi.off && hi.off > lo.off {
					fail("overlapping edits in %s near line %d", rel, 1+strings.Count(string(src[:hi.off]), "\n"))
				}
			}
			res := src
			for _, e := range fe.edits {
				res = append(append(append([]byte{}, res[:e.off]...), e.text...), res[e.end:]...)
			}
			dst := filepath.Join(out, strings.ReplaceAll(rel, "/", "__"))
			if err := os.WriteFile(dst, res, 0644); err != nil {
				fail("%v", err)
			}
			overlay[fname] = dst
		}
	}
	nfiles := len(overlay)
	ents, err := os.ReadDir(rtdir)
	if err != nil {
		fail("%v", err)
	}
	for _, e := range ents {
		if strings.HasSuffix(e.Name(), ".go") {
			abs, _ := filepath.Abs(filepath.Join(rtdir, e.Name()))
			overlay[filepath.Join(repo, "verifrt", e.Name())] = abs
		}
	}
	js, _ := json.MarshalIndent(map[string]interface{}{"Replace": overlay}, "", " ")
	if err := os.WriteFile(filepath.Join(out, "overlay.json"), js, 0644); err != nil {
		fail("%v", err)
	}
	sort.Strings(sites)
	st, _ := json.Marshal(map[string]interface{}{"files": nfiles, "counts": counts, "sites": sites})
	os.WriteFile(filepath.Join(out, "seams.json"), st, 0644)
	fmt.Printf("seamgen: rewrote %d files: %v\n", nfiles, counts)
}

// goArgsCapturable: every argument can be captured by `:=` (no untyped nil,
// no multi-value call) and the callee is not a builtin or a conversion.
func goArgsCapturable(p *packages.Package, call *ast.CallExpr) bool {
	if tv, ok := p.TypesInfo.Types[call.Fun]; ok && (tv.IsBuiltin() || tv.IsType()) {
		return false
	}
	for _, a := range call.Args {
		tv, ok := p.TypesInfo.Types[a]
		if !ok || tv.IsNil() {
			return false
		}
		if _, isTuple := tv.Type.(*types.Tuple); isTuple {
			return false
		}
	}
	return true
}

func syncCall(p *packages.Package, call *ast.CallExpr) string {
	se, ok := call.Fun.(*ast.SelectorExpr)
	if !ok {
		return ""
	}
	s, ok := p.TypesInfo.Selections[se]
	if !ok {
		return ""
	}
	fn, ok := s.Obj().(*types.Func)
	if !ok || fn.Pkg() == nil || fn.Pkg().Path() != "sync" {
		return ""
	}
	switch fn.Name() {
	case "Lock", "Unlock", "Wait", "Done", "RLock", "RUnlock":
		return strings.TrimPrefix(fn.Name(), "R")
	}
	return ""
}

func isAtomicOp(p *packages.Package, se *ast.SelectorExpr) bool {
	if id, ok := se.X.(*ast.Ident); ok {
		if pn, ok := p.TypesInfo.Uses[id].(*types.PkgName); ok {
			return pn.Imported().Path() == "sync/atomic"
		}
	}
	if s, ok := p.TypesInfo.Selections[se]; ok {
		if fn, ok := s.Obj().(*types.Func); ok && fn.Pkg() != nil && fn.Pkg().Path() == "sync/atomic" {
			return true
		}
	}
	return false
}

func hasRecv(n ast.Node) bool {
	found := false
	ast.Inspect(n, func(m ast.Node) bool {
		if _, ok := m.(*ast.FuncLit); ok {
			return false
		}
		if u, ok := m.(*ast.UnaryExpr); ok && u.Op == token.ARROW {
			found = true
		}
		return true
	})
	return found
}
