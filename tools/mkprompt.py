#!/usr/bin/env python3
# mkprompt.py <prop> <tag> <flavour a|b|c> [steer text]  -> /tmp/mut/prompt-<prop><tag>.txt and a worktree /tmp/mut/<prop><tag>
import json,sys,subprocess,os
props={json.loads(l)['id']:json.loads(l) for l in open('/verif/properties.jsonl')}
tmpl=open('/verif/tools/mutprompt.tmpl').read()
flav={
 'a':'Prefer a defect that needs a PARTICULAR INTERLEAVING of goroutines, a particular thread count, or two cooperating code sites that each look fine alone.',
 'b':'Prefer a defect that needs a FAULT OR ERROR at a particular point (a failing collaborator, an error on the k-th item, end of input / truncation at a particular place, a malformed input nobody writes by hand) or an unusual multi-step sequence of operations.',
 'd':'Prefer a defect made of TWO COOPERATING CODE SITES that each look fine alone (for example a helper whose contract is changed slightly and one caller that now relies on the old contract; a default value changed in one place and assumed in another; a buffer size and an index).',
 'c':'Prefer a defect that needs an UNUSUAL INPUT SHAPE or boundary (sizes that straddle an internal buffer, block or channel capacity; ties; empty or one-element cases; a value exactly at a limit) or a multi-step sequence of operations.',
}
pid,tag,fl=sys.argv[1:4]
steer=sys.argv[4] if len(sys.argv)>4 else ''
wt=f'/tmp/mut/{pid}{tag}'
os.makedirs('/tmp/mut',exist_ok=True)
open(f'/tmp/mut/prompt-{pid}{tag}.txt','w').write(tmpl.format(wt=wt,prop=json.dumps(props[pid],indent=1),flavour=flav[fl]+(' '+steer if steer else '')))
subprocess.run(['git','-C','/repo','worktree','add','-f',wt,'HEAD'],capture_output=True)
print(wt)
