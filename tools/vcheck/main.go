// vcheck is the supervisor: it rebuilds everything from /repo's working
// tree (seam overlay, harness test binaries, CLI), runs seeded simulated runs
// in worker processes, confirms every candidate violation by replay in a
// fresh process, shrinks it, matches known findings, writes the evidence
// file and prints VIOLATION / KNOWN-FINDING lines.
//
// exit 0: property held on everything explored (possibly KNOWN-FINDING lines)
// exit 1: VIOLATION property=<id> replay=<path>
// exit 2: the machinery itself failed (build, nondeterministic replay, ...)
package main

import (
	"bytes"
	"encoding/json"
	"flag"
	"fmt"
	"os"
	"os/exec"
	"os/signal"
	"path/filepath"
	"regexp"
	"runtime"
	"sort"
	"strconv"
	"strings"
	"sync"
	"sync/atomic"
	"syscall"
	"time"
)

type propCfg struct {
	quick, thorough         int // simulated runs
	quickRace, thoroughRace int // runs under the race detector (0 = no race binary)
	coldQuick, coldThorough int // runs that each get a process of their own (process-wide lazily built state is fresh), plain and again under the race detector
	level                   string
	needsCLI                bool
	acceptExitDeath         bool  // a worker killed by goalign's own ExitWithMessage (from a goroutine the harness cannot recover in) is an accepted outcome
	vlimitKB                int64 // address-space limit for non-race workers (0 = none)
	stallS                  int   // seconds without journal progress before a worker is declared stalled
	engine                  string
	components              string
	assumptions             []string
}

var e1Assumptions = []string{"testing/synctest reports quiescence correctly (go1.26.8)", "a goroutine runs alone between two yield points except for the few instructions a goroutine woken through goalign's own channels executes before it parks", "the race detector's shadow memory (4 cells per 8 bytes) keeps the conflicting access: runs are kept small in race mode", "seeded search samples schedules, it does not enumerate them"}

var props = map[string]propCfg{
	"C16": {quick: 3000, thorough: 300000, quickRace: 800, thoroughRace: 60000, coldQuick: 160, coldThorough: 4000, level: "exploration", stallS: 40, engine: "E1 seeded goroutine scheduler + race detector",
		components:  "real: phaser.Phase, SeqBag.SequencesChan producer goroutine, worker pool, closer goroutine, pairwise aligner, translation, SeqBag.LongestORF; environment: the harness is the consumer of the result channel (one more scheduled goroutine), yield points spliced by seamgen; stubs: none",
		assumptions: e1Assumptions},
	"C02": {quick: 150000, thorough: 8000000, quickRace: 20000, thoroughRace: 600000, coldQuick: 160, coldThorough: 4000, level: "exploration", stallS: 120, engine: "E2 simulated stream + real temp files + E1 seeded scheduler for the multi-alignment stream",
		components:  "real: the 6 writers, the 6 lexers and parsers, utils.OpenWriteFile / CloseWriteFile / GetReader / GetReaderFromReader / ReadAlign / ParseAlignmentAuto / ParseMultiAlignmentsAuto incl. its parser goroutine and the close of the file, gzip and xz layers, real files in the run's temp directory; environment: simFile (fragmentation, empty reads, EOF style, close accounting), yield points spliced by seamgen; stubs: none",
		assumptions: []string{"which characters a format can represent in a name is a table written from the statement and the format definitions (nameExtra in sim/c02.go): Nexus punctuation, '#' and '/' for Stockholm, '>' for FASTA are excluded; names equal to a format keyword are not generated", "no disk faults: the property does not quantify over them and goalign has no seam under os.Create/os.Open", "testing/synctest reports quiescence correctly (go1.26.8)"}},
	"C14": {quick: 40000, thorough: 2000000, coldQuick: 160, coldThorough: 4000, level: "exploration", stallS: 120, engine: "E3 map-iteration-order seam (in-process)",
		components:  "real: every statistic of align.Alignment / SeqBag / Sequence / CountProfile named by the property plus the operations that inherit the majority character (MaskUnique, MaskOccurences, Mask with MAJ, RemoveMajorityCharacterSites); environment: verifrt.Keys behind every `range` over a map (spliced by seamgen, order = PRNG keyed on map seed, site and call count); stubs: none",
		assumptions: []string{"every map iteration of goalign goes through the seam: seamgen rewrites each range statement whose operand has map type and reports the count in coverage.seams", "floating sums are compared to 1e-12 relative: the statement's 'same answer' is not read as the last bit of a re-associated sum", "the naive definitions are evaluated on the simulated runs but owe nothing to the simulation; where the documentation is ambiguous (N/X in variable and informative sites, lower case in entropy) both readings are accepted or the clause is skipped"}},
	"C10": {quick: 60000, thorough: 2000000, coldQuick: 160, coldThorough: 4000, level: "exploration", stallS: 120, engine: "E3 seeded replay of the product's random stream under different map orders and clocks (in-process)",
		components:  "real: the 12 randomised operations of align.Alignment / SeqBag on top of the global math/rand stream seeded through rand.Seed as cmd/root.go does; in cli runs the same operations through cmd.RootCmd executed in-process with --seed (cmd/root.go's own seeding, the commands' flag plumbing and writers included), every goroutine of the command under the FIFO policy of the scheduler; environment: map-order and clock seams spliced by seamgen; stubs: none",
		assumptions: []string{"the harness module sets godebug randseednop=0 so that rand.Seed seeds the global stream as it does in the shipped binary (built from a go 1.21 module)", "support claims: 400 product seeds per run, every required outcome has probability >= 1/6 per execution on correct code, so a missing outcome has probability below 1e-30 (union bound over at most 25 outcomes)", "fractions are dyadic and lengths multiples of 4 so that floor(frac*L) is the same in real and floating-point arithmetic"}},
	"C01": {quick: 2000000, thorough: 150000000, coldQuick: 160, coldThorough: 4000, level: "exploration", stallS: 120, engine: "E4 operation histories against a list-of-rows reference model",
		components:  "real: align.Alignment / align.SeqBag and every operation of the history (AddSequence, Append, Concat, Rename, RenameRegexp, CleanNames, TrimNames, TrimNamesAuto, AppendSeqIdentifier, Sort, ShuffleSequences, FilterLength, Deduplicate, RemoveGapSeqs, RemoveCharacterSeqs, RemoveGapSites, RemoveCharacterSites, RemoveMajorityCharacterSites, Compress, TrimSequences, Translate, Clone, Sample, Clear, SubAlign, SelectSites, Transpose, Unalign, Replace, ReplaceMatchChars, Mask, MaskUnique, MaskOccurences, Swap, Recombine, ShuffleSites, AddGaps, Mutate, SimulateRogue, RandSubAlign, ToUpper, ToLower, IgnoreIdentical) and all accessors; environment: the simulated client (history generator), per-operation random seeds, map-order seam; stubs: none",
		assumptions: []string{"the reference model implements each operation from its documentation comment; where the comment does not fix the result (name cleaning / trimming, gap and character filters, translation, trimming) the operation is held to the invariants only and the model is re-read from the container", "by-name lookups are only compared for names that are unique in the container (the statement excepts names the caller made equal)", "no goroutine, stream or clock is involved: what is simulated is the client's history, including operations that must be rejected"}},
	"C19": {quick: 400000, thorough: 20000000, coldQuick: 160, coldThorough: 4000, level: "exploration", stallS: 120, engine: "E4 operation histories over a pool of live objects",
		components:  "real: the 7 writers, the statistics, Consensus, Entropy, Pssm, CountProfile, DistMatrix (its own goroutines, unscheduled here), protein MLDist, the pairwise aligner, LongestORF, Unalign, Transpose, BuildBootstrap, Clone, CloneSeqBag, SubAlign, SelectSites, Sequence.Clone and the in-place mutators; environment: the simulated client (history generator), map-order seam; stubs: none",
		assumptions: []string{"independence is only demanded of what the statement names (clones, sub-alignments, site selections, cloned sequences); Sample, Append and SequenceChar share storage by design and are not alarmed", "DistMatrix and Phase under seeded schedules are covered by C08 and C16, whose runs snapshot their inputs; here DistMatrix runs with real unscheduled goroutines", "sequences that contain no ORF make Phase crash in a worker (outside C16's quantifier), so Phase is not part of these histories"}},
	"C11": {quick: 5000, thorough: 300000, quickRace: 400, thoroughRace: 20000, level: "exploration", stallS: 300, needsCLI: true, engine: "E3 process-level determinism (+ E1 seeded scheduler for the commands that own a worker pool)",
		components:  "real: the goalign binary built from the working tree (default go toolchain, seam overlay inactive unless VERIF_MAPSEED / VERIF_CLOCK are set), real files, real OS pipes, real process exits; in sched mode cmd.RootCmd executed in-process with every goroutine of the command under the seeded scheduler, plain and (a batch of its own) under the race detector; environment: map-order and clock seams, --threads, GOMAXPROCS; stubs: none",
		assumptions: []string{"at process level the OS schedules goroutines: phase / phasent are therefore executed with one thread in both configurations there, and their thread clause is decided in sched mode under two seeded schedules", "stderr is not compared (log.Print stamps real time inside the standard library; warnings are not output)", "every map iteration and clock read of goalign goes through the seams (coverage.seams lists what seamgen rewrote)"}},
	"C03": {quick: 2000000, thorough: 150000000, coldQuick: 160, coldThorough: 4000, level: "fault_enumeration", stallS: 60, vlimitKB: 8 << 20, acceptExitDeath: true, engine: "E2 simulated stream with fault injection",
		components:  "real: the 6 lexers and 7 parsers (fasta, phylip strict/relaxed incl. ParseMultiple, nexus, clustal, stockholm, partition), utils.ParseAlignmentAuto, utils.ParseMultiAlignmentsAuto and its parser goroutine, bufio; environment: simFile (io.Reader + io.Closer: fragmentation, empty reads, EOF style, read errors, post-EOF read budget), os.Exit seam; stubs: none",
		assumptions: []string{"a parser that asks the stream for more data 10000 times after the end was reported is looping (the budget is far above what bufio and the lexers need: they stop at the first EOF token)", "an out-of-memory death of a worker under an 8 GiB address-space limit counts as a crash caused by the input", "seeded search samples the fault space; only the stated sweeps (every prefix / every structural byte of the corpus files) are exhaustive"}},
	"C08": {quick: 20000, thorough: 2000000, quickRace: 5000, thoroughRace: 400000, coldQuick: 240, coldThorough: 6000, level: "exploration", stallS: 40, engine: "E1 seeded goroutine scheduler + race detector",
		components:  "real: dna.DistMatrix, its producer/worker goroutines, sync.Mutex, sync.WaitGroup, channels, all 7 estimators; environment: model wrapper behind the public DistModel interface (delegates; injects errors), yield points spliced by seamgen; stubs: none",
		assumptions: []string{"testing/synctest reports quiescence correctly (go1.26.8)", "a goroutine runs alone between two yield points except for the few instructions a goroutine woken through goalign's own channels executes before it parks", "the race detector's shadow memory (4 cells per 8 bytes) keeps the conflicting access: runs are kept to <= 66 pairs in race mode", "seeded search samples schedules, it does not enumerate them"}},
}

type Job struct {
	Property    string            `json:"property"`
	Mode        string            `json:"mode"`
	Tier        string            `json:"tier"`
	Seed        uint64            `json:"seed"`
	Start       int               `json:"start"`
	Stride      int               `json:"stride"`
	Count       int               `json:"count"`
	Race        bool              `json:"race"`
	Out         string            `json:"out"`
	Journal     string            `json:"journal"`
	ReplayIn    string            `json:"replay_in"`
	ReplayDir   string            `json:"replay_dir"`
	RaceLog     string            `json:"race_log"`
	MaxPerClass int               `json:"max_per_class"`
	DeadlineS   int               `json:"deadline_s"`
	Extra       map[string]string `json:"extra"`
}

type FoundViolation struct {
	JobStart  int    `json:"job_start"`
	JobStride int    `json:"job_stride"`
	Index   int    `json:"index"`
	RunSeed uint64 `json:"runseed"`
	Class   string `json:"class"`
	Detail  string `json:"detail"`
	Replay  string `json:"replay"`
	Race    bool   `json:"race"`
}

type BatchResult struct {
	Runs        int              `json:"runs"`
	Nontrivial  int              `json:"nontrivial"`
	Sigs        []uint64         `json:"sigs"`
	Stats       map[string]int64 `json:"stats"`
	Samples     []interface{}    `json:"samples"`
	Violations  []FoundViolation `json:"violations"`
	ClassCount  map[string]int   `json:"class_count"`
	WallS       float64          `json:"wall_s"`
	Complete    bool             `json:"complete"`
	Diverged    string           `json:"diverged"`
	Rule        string           `json:"rule"`
	EnumSize    int              `json:"enum_size"`
	Reproduced  bool             `json:"reproduced"`
	Class       string           `json:"class"`
	Detail      string           `json:"detail"`
	ShrinkTried int              `json:"shrink_tried"`
	ShrinkKept  int              `json:"shrink_kept"`
}

type Replay struct {
	Property string          `json:"property"`
	RunSeed  uint64          `json:"runseed"`
	Tier     string          `json:"tier"`
	Race     bool            `json:"race"`
	Class    string          `json:"class"`
	Detail   string          `json:"detail"`
	Shrunk   bool            `json:"shrunk"`
	Note     string          `json:"note,omitempty"`
	Index    int             `json:"index"`
	Case     json.RawMessage `json:"case"`
	// History, when set: the violation shows only after the runs that one worker process executed before it (state
	// that goalign keeps for the whole process). The replay is that sequence of runs, in one fresh process.
	History *History `json:"history,omitempty"`
}

type History struct {
	Seed   uint64 `json:"seed"`
	Start  int    `json:"start"`
	Stride int    `json:"stride"`
	Count  int    `json:"count"`
}

var (
	root    string // /verif
	repo    = "/repo"
	work    string
	verbose bool
	goEnv   []string
)

var coverOut string

var (
	childMu  sync.Mutex
	children = map[int]bool{}
)

// killChildren ends every worker process group (workers may have children of their own).
func killChildren() {
	childMu.Lock()
	defer childMu.Unlock()
	for pid := range children {
		syscall.Kill(-pid, syscall.SIGKILL)
	}
}

func die2(format string, a ...interface{}) {
	fmt.Fprintf(os.Stderr, "vcheck: MACHINERY FAILURE: "+format+"\n", a...)
	cleanup()
	os.Exit(2)
}

func cleanup() {
	if work != "" && os.Getenv("VERIF_KEEP") == "" {
		os.RemoveAll(work)
	}
}

func logf(format string, a ...interface{}) {
	fmt.Fprintf(os.Stderr, format+"\n", a...)
}

func run(dir string, env []string, name string, args ...string) (string, error) {
	cmd := exec.Command(name, args...)
	cmd.Dir = dir
	cmd.Env = env
	var buf bytes.Buffer
	cmd.Stdout = &buf
	cmd.Stderr = &buf
	err := cmd.Run()
	return buf.String(), err
}

func main() {
	if len(os.Args) < 2 {
		fmt.Fprintln(os.Stderr, "usage: vcheck <property> [--tier quick|thorough] [--seed N] [--replay file] [--runs N] [--race-runs N]")
		os.Exit(2)
	}
	id := os.Args[1]
	fs := flag.NewFlagSet("vcheck", flag.ExitOnError)
	tier := fs.String("tier", "", "quick | thorough")
	seedF := fs.Int64("seed", -1, "VERIF_SEED")
	replay := fs.String("replay", "", "replay file")
	runsF := fs.Int("runs", -1, "override number of runs")
	raceRunsF := fs.Int("race-runs", -1, "override number of race runs")
	workersF := fs.Int("workers", 0, "worker processes")
	fs.BoolVar(&verbose, "v", false, "verbose")
	noEvidence := fs.Bool("no-evidence", false, "do not write the evidence file")
	fs.StringVar(&coverOut, "cover", "", "measure statement coverage of goalign by the plain batch and write the merged profile to this file (no race batch, no cold runs, no evidence)")
	selftest := fs.Int("selftest", 0, "determinism self-test: execute the first N runs in 6 processes (GOMAXPROCS 1, 4, 16, twice each) and compare everything they produce")
	fs.Parse(os.Args[2:])
	if *tier == "" {
		*tier = os.Getenv("VERIF_TIER")
	}
	if *tier == "" {
		*tier = "quick"
	}
	if *tier != "quick" && *tier != "thorough" {
		die2("unknown tier %q", *tier)
	}
	seed := uint64(1)
	if v := os.Getenv("VERIF_SEED"); v != "" {
		if s, err := strconv.ParseUint(v, 10, 64); err == nil {
			seed = s
		}
	}
	if *seedF >= 0 {
		seed = uint64(*seedF)
	}
	exe, _ := os.Executable()
	root = filepath.Dir(filepath.Dir(exe))
	if v := os.Getenv("VERIF_ROOT"); v != "" {
		root = v
	}
	if v := os.Getenv("VERIF_REPO"); v != "" {
		repo = v
	}
	cfg, ok := props[id]
	if !ok {
		die2("property %s has no check (not applicable or unknown)", id)
	}
	goEnv = append(os.Environ(), "GOFLAGS=-mod=mod", "GOPROXY=off", "GOSUMDB=off", "GOTOOLCHAIN=local", "GONOSUMDB=*", "GONOSUMCHECK=1")
	var err error
	work, err = os.MkdirTemp("", "vcheck-"+id+"-")
	if err != nil {
		die2("%v", err)
	}
	defer cleanup()
	// a supervisor that is told to stop takes its workers with it
	sigc := make(chan os.Signal, 1)
	signal.Notify(sigc, syscall.SIGTERM, syscall.SIGINT, syscall.SIGHUP)
	go func() {
		<-sigc
		killChildren()
		cleanup()
		fmt.Fprintln(os.Stderr, "vcheck: interrupted")
		os.Exit(2)
	}()
	t0 := time.Now()
	nw := *workersF
	if nw <= 0 {
		nw = runtime.NumCPU()
		if nw > 16 {
			nw = 16
		}
	}
	b := &builder{cfg: cfg, id: id}
	needRace := cfg.quickRace > 0
	if *replay != "" {
		*replay, _ = filepath.Abs(*replay)
		rp := readReplay(*replay)
		needRace = rp.Race
		b.build(!rp.Race, rp.Race)
		os.Exit(doReplay(b, id, *replay, rp))
	}
	if coverOut != "" {
		needRace = false
		*noEvidence = true
	}
	b.build(true, needRace)
	logf("vcheck %s: build done in %.1fs", id, time.Since(t0).Seconds())

	runs, raceRuns := cfg.quick, cfg.quickRace
	if *tier == "thorough" {
		runs, raceRuns = cfg.thorough, cfg.thoroughRace
	}
	if *runsF >= 0 {
		runs = *runsF
	}
	if *raceRunsF >= 0 {
		raceRuns = *raceRunsF
	}
	sup := &supervisor{b: b, id: id, cfg: cfg, tier: *tier, seed: seed, nw: nw}
	if *selftest > 0 {
		code := sup.selfTest(*selftest, needRace)
		cleanup()
		os.Exit(code)
	}
	if coverOut != "" {
		raceRuns = 0
	}
	total := sup.batch(false, runs, false)
	if coverOut != "" {
		mergeCover(coverOut)
	}
	if raceRuns > 0 {
		r2 := sup.batch(true, raceRuns, false)
		total = mergeResults(total, r2, "race_")
	}
	if coverOut != "" {
		raceRuns = 0
	}
	cold := cfg.coldQuick
	if *tier == "thorough" {
		cold = cfg.coldThorough
	}
	if coverOut != "" {
		cold = 0
	}
	if *runsF >= 0 && *runsF < cold {
		cold = *runsF
	}
	if cold > 0 {
		// one process per run: whatever goalign builds lazily, once per process, is built inside the simulated run
		total = mergeResults(total, sup.batch(false, cold, true), "cold_")
		if raceRuns > 0 {
			total = mergeResults(total, sup.batch(true, cold, true), "cold_race_")
		}
	}
	code := sup.conclude(total, t0, !*noEvidence)
	cleanup()
	os.Exit(code)
}

// ---------------------------------------------------------------------
// build
// ---------------------------------------------------------------------

type builder struct {
	cfg     propCfg
	id      string
	overlay string
	bin     string
	raceBin string
	cli     string
	seams   map[string]interface{}
}

func (b *builder) build(plain, race bool) {
	ov := filepath.Join(work, "ov")
	os.MkdirAll(ov, 0755)
	out, err := run(root, goEnv, filepath.Join(root, "bin", "seamgen"), repo, ov, filepath.Join(root, "verifrt"))
	if err != nil {
		die2("seamgen failed (does the tree compile?):\n%s", out)
	}
	if verbose {
		logf("%s", strings.TrimSpace(out))
	}
	b.overlay = filepath.Join(ov, "overlay.json")
	if sb, err := os.ReadFile(filepath.Join(ov, "seams.json")); err == nil {
		json.Unmarshal(sb, &b.seams)
		if cm, ok := b.seams["counts"].(map[string]interface{}); ok {
			if n, _ := cm["go-unhandled"].(float64); n > 0 && (b.id == "C08" || b.id == "C16" || b.id == "C02" || b.id == "C11") {
				// a `go` statement of a form seamgen cannot rewrite starts a goroutine the scheduler does not own:
				// verdicts of the scheduled engines would rest on the OS scheduler for it
				die2("seamgen found %v `go` statement(s) it cannot put under the scheduler (see seams.json); refusing to report verdicts that depend on unscheduled goroutines", n)
			}
		}
	}
	// harness sources are compiled from a scratch copy so that nothing in /verif is written
	sim := filepath.Join(work, "sim")
	os.MkdirAll(sim, 0755)
	ents, _ := os.ReadDir(filepath.Join(root, "sim"))
	for _, e := range ents {
		if e.IsDir() {
			continue
		}
		data, err := os.ReadFile(filepath.Join(root, "sim", e.Name()))
		if err != nil {
			die2("%v", err)
		}
		if e.Name() == "go.mod" && repo != "/repo" {
			data = bytes.ReplaceAll(data, []byte("=> /repo"), []byte("=> "+repo))
		}
		os.WriteFile(filepath.Join(sim, e.Name()), data, 0644)
	}
	if data, err := os.ReadFile(filepath.Join(repo, "go.sum")); err == nil {
		os.WriteFile(filepath.Join(sim, "go.sum"), data, 0644)
	}
	// corpus directories
	if _, err := os.Stat(filepath.Join(root, "sim", "corpus")); err == nil {
		run(root, goEnv, "cp", "-r", filepath.Join(root, "sim", "corpus"), filepath.Join(sim, "corpus"))
	}
	var wg sync.WaitGroup
	var errs [3]string
	if plain {
		b.bin = filepath.Join(work, "sim.test")
		wg.Add(1)
		go func() {
			defer wg.Done()
			args := []string{"test", "-c", "-tags", "verif", "-overlay", b.overlay, "-vet=off", "-o", b.bin}
			if coverOut != "" {
				args = append(args, "-cover", "-coverpkg", "github.com/evolbioinfo/goalign/align,github.com/evolbioinfo/goalign/io/...,github.com/evolbioinfo/goalign/distance/...,github.com/evolbioinfo/goalign/cmd")
			}
			out, err := run(sim, goEnv, "go1.26.8", append(args, ".")...)
			if err != nil {
				errs[0] = out
			}
		}()
	}
	if race {
		b.raceBin = filepath.Join(work, "sim.race.test")
		wg.Add(1)
		go func() {
			defer wg.Done()
			out, err := run(sim, goEnv, "go1.26.8", "test", "-c", "-race", "-tags", "verif", "-overlay", b.overlay, "-vet=off", "-o", b.raceBin, ".")
			if err != nil {
				errs[1] = out
			}
		}()
	}
	if b.cfg.needsCLI {
		b.cli = filepath.Join(work, "goalign")
		wg.Add(1)
		go func() {
			defer wg.Done()
			out, err := run(repo, goEnv, "go", "build", "-tags", "verif", "-overlay", b.overlay, "-o", b.cli, ".")
			if err != nil {
				errs[2] = out
			}
		}()
	}
	wg.Wait()
	for _, e := range errs {
		if e != "" {
			die2("build failed:\n%s", e)
		}
	}
}

// ---------------------------------------------------------------------
// workers
// ---------------------------------------------------------------------

type supervisor struct {
	stalls int32 // workers that had to be killed because a run made no progress (atomic)
	b      *builder
	id     string
	cfg    propCfg
	tier   string
	seed   uint64
	nw     int
	wseq   int
	mu     sync.Mutex
}

type workerRun struct {
	res    BatchResult
	died   bool
	stall  bool
	stderr string
	lastB  int // index of the run that was executing when the worker died (-2 = none)
	lastRS uint64
	ended  int // number of completed runs according to the journal
	dir    string
}

func (s *supervisor) extra() map[string]string {
	m := map[string]string{"repo": repo, "root": root}
	if s.b.cli != "" {
		m["cli"] = s.b.cli
	}
	return m
}

func (s *supervisor) spawn(job Job, timeout time.Duration) workerRun {
	s.mu.Lock()
	s.wseq++
	n := s.wseq
	s.mu.Unlock()
	dir := filepath.Join(work, fmt.Sprintf("w%d", n))
	os.MkdirAll(dir, 0755)
	job.Out = filepath.Join(dir, "out.json")
	job.Journal = filepath.Join(dir, "journal")
	if job.ReplayDir == "" {
		job.ReplayDir = filepath.Join(work, "cand")
	}
	job.RaceLog = filepath.Join(dir, "race")
	if job.Extra == nil {
		job.Extra = s.extra()
	} else {
		for k, v := range s.extra() {
			if _, ok := job.Extra[k]; !ok {
				job.Extra[k] = v
			}
		}
	}
	jb, _ := json.Marshal(job)
	jp := filepath.Join(dir, "job.json")
	os.WriteFile(jp, jb, 0644)
	bin := s.b.bin
	if job.Race {
		bin = s.b.raceBin
	}
	args := []string{"-test.run", "^TestWorker$", "-test.timeout", "0"}
	if coverOut != "" && !job.Race {
		args = append(args, "-test.coverprofile", filepath.Join(dir, "cover.out"))
	}
	var cmd *exec.Cmd
	if s.cfg.vlimitKB > 0 && !job.Race && coverOut == "" {
		sh := fmt.Sprintf("ulimit -v %d; exec %s %s", s.cfg.vlimitKB, bin, strings.Join(args, " "))
		cmd = exec.Command("/bin/sh", "-c", sh)
	} else {
		cmd = exec.Command(bin, args...)
	}
	cmd.Dir = dir
	cmd.Env = append(os.Environ(), "VERIF_JOB="+jp, "GOTRACEBACK=all", "GOMAXPROCS="+gomaxprocs(job))
	if job.Race {
		cmd.Env = append(cmd.Env, "GORACE=log_path="+job.RaceLog+" halt_on_error=0 history_size=5")
	}
	ef, _ := os.Create(filepath.Join(dir, "stderr"))
	cmd.Stdout = ef
	cmd.Stderr = ef
	cmd.SysProcAttr = &syscall.SysProcAttr{Setpgid: true}
	if err := cmd.Start(); err != nil {
		die2("cannot start worker: %v", err)
	}
	childMu.Lock()
	children[cmd.Process.Pid] = true
	childMu.Unlock()
	defer func() {
		childMu.Lock()
		delete(children, cmd.Process.Pid)
		childMu.Unlock()
	}()
	done := make(chan error, 1)
	go func() { done <- cmd.Wait() }()
	stall := time.Duration(s.cfg.stallS) * time.Second
	if stall == 0 {
		stall = 120 * time.Second
	}
	var wr workerRun
	wr.dir = dir
	lastSize := int64(-1)
	lastChange := time.Now()
	deadline := time.Now().Add(timeout)
	tick := time.NewTicker(500 * time.Millisecond)
	defer tick.Stop()
loop:
	for {
		select {
		case <-done:
			break loop
		case <-tick.C:
			if st, err := os.Stat(job.Journal); err == nil && st.Size() != lastSize {
				lastSize = st.Size()
				lastChange = time.Now()
			}
			if time.Since(lastChange) > stall || time.Now().After(deadline) {
				wr.stall = true
				// ask the Go runtime for all stacks, then kill
				syscall.Kill(-cmd.Process.Pid, syscall.SIGQUIT)
				select {
				case <-done:
				case <-time.After(5 * time.Second):
					syscall.Kill(-cmd.Process.Pid, syscall.SIGKILL)
					<-done
				}
				break loop
			}
		}
	}
	ef.Close()
	eb, _ := os.ReadFile(filepath.Join(dir, "stderr"))
	wr.stderr = string(eb)
	if ob, err := os.ReadFile(job.Out); err == nil {
		if json.Unmarshal(ob, &wr.res) != nil {
			wr.died = true
		}
	} else {
		wr.died = true
		if pb, err := os.ReadFile(job.Out + ".part"); err == nil {
			json.Unmarshal(pb, &wr.res) // what the worker had gathered before it died
		}
	}
	// journal: last B without E
	wr.lastB = -2
	if jb, err := os.ReadFile(job.Journal); err == nil {
		open := false
		for _, line := range strings.Split(string(jb), "\n") {
			f := strings.Fields(line)
			if len(f) >= 2 && f[0] == "B" {
				open = true
				wr.lastB, _ = strconv.Atoi(f[1])
				if len(f) >= 3 {
					wr.lastRS, _ = strconv.ParseUint(f[2], 10, 64)
				}
			} else if len(f) >= 2 && f[0] == "E" {
				open = false
				wr.ended++
			}
		}
		if !open {
			wr.lastB = -2
		}
	}
	// race logs of this worker are inside dir; keep the dir until the end (small)
	return wr
}

// selfTest: the same runs in several processes at several GOMAXPROCS values
// must produce the same cases, signatures, verdict classes and counters.
func (s *supervisor) selfTest(n int, race bool) int {
	var wg sync.WaitGroup
	type res struct {
		trace string
		gmp   string
		race  bool
	}
	var out []res
	var mu sync.Mutex
	modes := []bool{false}
	if race {
		modes = append(modes, true)
	}
	for _, rc := range modes {
		for k := 0; k < 6; k++ {
			k, rc := k, rc
			wg.Add(1)
			go func() {
				defer wg.Done()
				tp := filepath.Join(work, fmt.Sprintf("trace-%v-%d", rc, k))
				job := Job{Property: s.id, Mode: "batch", Tier: s.tier, Seed: s.seed, Start: 0, Stride: 1, Count: n, Race: rc, Extra: map[string]string{"trace": tp, "gomaxprocs": []string{"1", "4", "16"}[k%3]}}
				wr := s.spawn(job, 2*time.Hour)
				b, _ := os.ReadFile(tp)
				if wr.died || wr.stall {
					b = append(b, []byte(fmt.Sprintf("WORKER DIED at run %d\n", wr.lastB))...)
				}
				mu.Lock()
				out = append(out, res{string(b), job.Extra["gomaxprocs"], rc})
				mu.Unlock()
			}()
		}
	}
	wg.Wait()
	bad := 0
	for _, rc := range modes {
		var ref *res
		for i := range out {
			if out[i].race != rc {
				continue
			}
			if ref == nil {
				ref = &out[i]
				continue
			}
			if out[i].trace != ref.trace {
				bad++
				a, b := strings.Split(ref.trace, "\n"), strings.Split(out[i].trace, "\n")
				for k := 0; k < len(a) && k < len(b); k++ {
					if a[k] != b[k] {
						fmt.Printf("SELFTEST DIVERGENCE property=%s race=%v GOMAXPROCS %s vs %s:\n  %s\n  %s\n", s.id, rc, ref.gmp, out[i].gmp, a[k], b[k])
						break
					}
				}
			}
		}
	}
	if bad > 0 {
		fmt.Printf("SELFTEST FAILED property=%s: %d of %d processes diverged\n", s.id, bad, len(out))
		return 2
	}
	fmt.Printf("SELFTEST OK property=%s: %d runs x %d processes (GOMAXPROCS 1, 4, 16; plain%s) produced identical cases, signatures, verdicts and counters\n", s.id, n, len(out), map[bool]string{true: " and race", false: ""}[race])
	return 0
}

func gomaxprocs(job Job) string {
	if v := job.Extra["gomaxprocs"]; v != "" {
		return v
	}
	// vary the number of OS threads under the scheduler: a determinism check in itself
	switch job.Start % 3 {
	case 0:
		return "4"
	case 1:
		return "1"
	}
	return "16"
}

var (
	reGoalignFrame = regexp.MustCompile(`(?m)^github\.com/evolbioinfo/goalign/(\S+?)\(`)
)

func goalignFuncs(stack string) []string {
	var out []string
	for _, line := range strings.Split(stack, "\n") {
		line = strings.TrimSpace(line)
		if !strings.HasPrefix(line, "github.com/evolbioinfo/goalign/") {
			continue
		}
		f := strings.TrimPrefix(line, "github.com/evolbioinfo/goalign/")
		if i := strings.LastIndex(f, "("); i > 0 {
			f = f[:i]
		}
		if strings.HasPrefix(f, "verifrt.") {
			continue
		}
		out = append(out, f)
	}
	return out
}

// classifyDeath mirrors sim.ClassifyDeath.
func classifyDeath(stderr string, stalled bool) string {
	kind := "unknown"
	switch {
	case stalled:
		kind = "stall"
	case strings.Contains(stderr, "fatal error: all goroutines are asleep"):
		kind = "deadlock"
	case strings.Contains(stderr, "out of memory") || strings.Contains(stderr, "cannot allocate memory"):
		kind = "oom"
	case strings.Contains(stderr, "stack overflow"):
		kind = "stackoverflow"
	case strings.Contains(stderr, "fatal error:"):
		kind = "fatal"
	case strings.Contains(stderr, "verifrt: exit("):
		kind = "exit"
	case strings.Contains(stderr, "panic:"):
		kind = "panic"
	}
	top := "?"
	i := strings.Index(stderr, "panic:")
	if j := strings.Index(stderr, "fatal error:"); j >= 0 && (i < 0 || j < i) {
		i = j
	}
	if stalled {
		// SIGQUIT dump: the running goroutine(s) with a goalign frame
		i = strings.Index(stderr, "SIGQUIT")
		if i >= 0 {
			for _, g := range strings.Split(stderr[i:], "\n\n") {
				hdr := strings.SplitN(g, "\n", 2)[0]
				if strings.Contains(hdr, "[running") || strings.Contains(hdr, "[runnable") || strings.Contains(hdr, "Mutex") || strings.Contains(hdr, "semacquire") {
					if fs := goalignFuncs(g); len(fs) > 0 {
						top = fs[0]
						break
					}
				}
			}
		}
	} else if i >= 0 {
		if fs := goalignFuncs(stderr[i:]); len(fs) > 0 {
			top = fs[0]
		}
	}
	return "procdeath:" + kind + ":" + top
}

func tail(s string, n int) string {
	if len(s) > n {
		return "... " + s[len(s)-n:]
	}
	return s
}

// batch runs `runs` simulated runs over nw workers, restarting a worker after
// the run that killed it.
// mergeCover unites the coverage profiles the workers of the plain batch left (mode set: a block counts once).
func mergeCover(out string) {
	files, _ := filepath.Glob(filepath.Join(work, "w*", "cover.out"))
	blocks := map[string]int{}
	for _, f := range files {
		data, err := os.ReadFile(f)
		if err != nil {
			continue
		}
		for _, line := range strings.Split(string(data), "\n") {
			if line == "" || strings.HasPrefix(line, "mode:") {
				continue
			}
			k := strings.LastIndexByte(line, ' ')
			if k < 0 {
				continue
			}
			n, _ := strconv.Atoi(line[k+1:])
			if n > 0 {
				blocks[line[:k]] = 1
			} else if _, ok := blocks[line[:k]]; !ok {
				blocks[line[:k]] = 0
			}
		}
	}
	keys := make([]string, 0, len(blocks))
	for k := range blocks {
		keys = append(keys, k)
	}
	sort.Strings(keys)
	var sb strings.Builder
	sb.WriteString("mode: set\n")
	for _, k := range keys {
		fmt.Fprintf(&sb, "%s %d\n", k, blocks[k])
	}
	os.WriteFile(out, []byte(sb.String()), 0644)
	logf("vcheck: merged %d coverage profiles into %s", len(files), out)
}

// coldBase: cold runs take their indices (and so their run seeds) from a range of their own.
const coldBase = 1 << 40

func (s *supervisor) batch(race bool, runs int, cold bool) BatchResult {
	total := BatchResult{Stats: map[string]int64{}, ClassCount: map[string]int{}}
	if runs <= 0 {
		return total
	}
	nw := s.nw
	if runs < nw {
		nw = runs
	}
	var wg sync.WaitGroup
	results := make([][]workerRun, nw)
	t0 := time.Now()
	for w := 0; w < nw; w++ {
		w := w
		wg.Add(1)
		go func() {
			defer wg.Done()
			if cold {
				for i := w; i < runs; i += nw {
					job := Job{Property: s.id, Mode: "batch", Tier: s.tier, Seed: s.seed, Start: coldBase + i, Stride: 1, Count: 1, Race: race}
					wr := s.spawn(job, 30*time.Minute)
					if !wr.died && !wr.stall && len(wr.res.Violations) == 0 {
						os.RemoveAll(wr.dir)
					}
					results[w] = append(results[w], wr)
					if wr.stall {
						atomic.AddInt32(&s.stalls, 1)
					}
					if atomic.LoadInt32(&s.stalls) >= 6 {
						break
					}
					if wr.died && wr.lastB == -2 {
						die2("worker died outside a run:\n%s", tail(wr.stderr, 4000))
					}
				}
				return
			}
			cnt := runs / nw
			if w < runs%nw {
				cnt++
			}
			start := w
			restarts := 0
			for cnt > 0 {
				job := Job{Property: s.id, Mode: "batch", Tier: s.tier, Seed: s.seed, Start: start, Stride: nw, Count: cnt, Race: race}
				wr := s.spawn(job, 6*time.Hour)
				results[w] = append(results[w], wr)
				if !wr.died && !wr.stall {
					break
				}
				if wr.stall {
					atomic.AddInt32(&s.stalls, 1)
				}
				if atomic.LoadInt32(&s.stalls) >= 6 {
					// the same hang again and again: enough evidence, do not spend the stall timeout hundreds of times
					break
				}
				if wr.lastB == -2 {
					// died outside a run: machinery problem
					die2("worker died outside a run:\n%s", tail(wr.stderr, 4000))
				}
				// continue after the killing run
				doneRuns := (wr.lastB-start)/nw + 1
				cnt -= doneRuns
				start = wr.lastB + nw
				restarts++
				if restarts > 300 {
					logf("vcheck: worker %d restarted %d times, giving up on its remaining %d runs", w, restarts, cnt)
					break
				}
			}
		}()
	}
	wg.Wait()
	sigs := map[uint64]bool{}
	add := func(r BatchResult) {
		total.Runs += r.Runs
		total.Nontrivial += r.Nontrivial
		for _, sg := range r.Sigs {
			sigs[sg] = true
		}
		for k, v := range r.Stats {
			total.Stats[k] += v
		}
		for k, v := range r.ClassCount {
			total.ClassCount[k] += v
		}
		if len(total.Samples) < 4 {
			total.Samples = append(total.Samples, r.Samples...)
		}
		if r.Rule != "" {
			total.Rule = r.Rule
		}
		if r.EnumSize > total.EnumSize {
			total.EnumSize = r.EnumSize
		}
		total.Violations = append(total.Violations, r.Violations...)
	}
	for w := range results {
		for _, wr := range results[w] {
			r := wr.res
			if wr.died || wr.stall {
				// a dead worker leaves a partial result (at most a second old) and the journal
				add(r)
				if wr.ended+1 > r.Runs {
					total.Runs += wr.ended + 1 - r.Runs
				}
				cl := classifyDeath(wr.stderr, wr.stall)
				if s.cfg.acceptExitDeath && strings.HasPrefix(cl, "procdeath:exit:") {
					total.Stats["outcome_exit_in_parser_goroutine"]++
					continue
				}
				total.ClassCount[cl]++
				if total.ClassCount[cl] <= 3 {
					path := filepath.Join(work, "cand", fmt.Sprintf("death-%v-%d.json", race, wr.lastB))
					os.MkdirAll(filepath.Dir(path), 0755)
					rp := Replay{Property: s.id, RunSeed: wr.lastRS, Tier: s.tier, Race: race, Index: wr.lastB, Class: cl, Detail: tail(wr.stderr, 6000), Note: "worker process died; case is regenerated from the run seed"}
					jb, _ := json.MarshalIndent(rp, "", " ")
					os.WriteFile(path, jb, 0644)
					total.Violations = append(total.Violations, FoundViolation{Index: wr.lastB, RunSeed: wr.lastRS, Class: cl, Detail: tail(wr.stderr, 3000), Replay: path, Race: race})
				}
				total.Stats["worker_process_deaths"]++
				continue
			}
			add(r)
		}
	}
	for sg := range sigs {
		total.Sigs = append(total.Sigs, sg)
	}
	total.WallS = time.Since(t0).Seconds()
	which := "plain"
	if race {
		which = "race"
	}
	if cold {
		which = "cold " + which
	}
	logf("vcheck %s: %s batch: %d runs, %d non-trivial, %d distinct, %d candidate classes, %.1fs", s.id, which, total.Runs, total.Nontrivial, len(total.Sigs), len(total.ClassCount), total.WallS)
	return total
}

func mergeResults(a, b BatchResult, prefix string) BatchResult {
	a.Stats[prefix+"runs"] = int64(b.Runs)
	a.Runs += b.Runs
	a.Nontrivial += b.Nontrivial
	sigs := map[uint64]bool{}
	for _, s := range a.Sigs {
		sigs[s] = true
	}
	for _, s := range b.Sigs {
		sigs[s] = true
	}
	a.Sigs = a.Sigs[:0]
	for s := range sigs {
		a.Sigs = append(a.Sigs, s)
	}
	for k, v := range b.Stats {
		a.Stats[prefix+k] += v
	}
	for k, v := range b.ClassCount {
		a.ClassCount[k] += v
	}
	a.Violations = append(a.Violations, b.Violations...)
	if len(a.Samples) < 5 {
		a.Samples = append(a.Samples, b.Samples...)
	}
	return a
}

// ---------------------------------------------------------------------
// confirm, shrink, report
// ---------------------------------------------------------------------

func readReplay(path string) Replay {
	b, err := os.ReadFile(path)
	if err != nil {
		die2("%v", err)
	}
	var rp Replay
	if err := json.Unmarshal(b, &rp); err != nil {
		die2("replay file %s: %v", path, err)
	}
	return rp
}

// runHistory executes runs start, start+stride, ... (count of them) in one fresh worker process and says whether
// the run at the given index ends in a violation (of any class, returned).
func (s *supervisor) runHistory(h *History, tier string, race bool, index int) (bool, string, string) {
	job := Job{Property: s.id, Mode: "batch", Tier: tier, Seed: h.Seed, Start: h.Start, Stride: h.Stride, Count: h.Count, Race: race, MaxPerClass: 1 << 30}
	wr := s.spawn(job, 30*time.Minute)
	for _, v := range wr.res.Violations {
		if v.Index == index {
			return true, v.Class, v.Detail
		}
	}
	return false, "", ""
}

// replayHistory: does the candidate reproduce after the runs its worker process executed before it? If so the
// history is cut down from the front (2, 4, 8 ... last runs) as far as it still reproduces.
func (s *supervisor) replayHistory(cand FoundViolation, rp Replay) (*History, string) {
	if cand.JobStride <= 0 || cand.Index <= cand.JobStart {
		return nil, ""
	}
	full := &History{Seed: s.seed, Start: cand.JobStart, Stride: cand.JobStride, Count: (cand.Index-cand.JobStart)/cand.JobStride + 1}
	ok, _, detail := s.runHistory(full, rp.Tier, rp.Race, cand.Index)
	if !ok {
		return nil, ""
	}
	best := full
	for k := 2; k < full.Count; k *= 2 {
		h := &History{Seed: s.seed, Start: cand.Index - (k-1)*cand.JobStride, Stride: cand.JobStride, Count: k}
		if ok2, _, d2 := s.runHistory(h, rp.Tier, rp.Race, cand.Index); ok2 {
			best, detail = h, d2
			break
		}
	}
	return best, fmt.Sprintf("only after the %d run(s) the same process executed before it (alone in a fresh process the case passes):\n%s", best.Count-1, detail)
}

// replayOnce runs one replay file in a fresh worker process.
// Returns (reproduced, class, detail, machineryProblem).
func (s *supervisor) replayOnce(path string, rp Replay, lenient bool) (bool, string, string, string) {
	job := Job{Property: s.id, Mode: "replay", Tier: rp.Tier, Race: rp.Race, ReplayIn: path}
	if lenient {
		job.Extra = map[string]string{"lenient": "1"}
	}
	to := 10 * time.Minute
	wr := s.spawn(job, to)
	if wr.died || wr.stall {
		if wr.lastB == -2 {
			return false, "", "", "replay worker died outside the run:\n" + tail(wr.stderr, 3000)
		}
		return true, classifyDeath(wr.stderr, wr.stall), tail(wr.stderr, 6000), ""
	}
	if wr.res.Diverged != "" {
		return false, "", "", "replay diverged from the recorded trace: " + wr.res.Diverged
	}
	return wr.res.Reproduced, wr.res.Class, wr.res.Detail, ""
}

func slug(s string) string {
	re := regexp.MustCompile(`[^A-Za-z0-9_.-]+`)
	s = re.ReplaceAllString(s, "_")
	if len(s) > 120 {
		s = s[:120]
	}
	return s
}

type finding struct {
	kind  string // finding | fixed
	prop  string
	class string // for finding: class key (may end in * for prefix match)
	rest  string
}

func loadKnown() []finding {
	var out []finding
	b, err := os.ReadFile(filepath.Join(root, "known_findings.txt"))
	if err != nil {
		return nil
	}
	for _, line := range strings.Split(string(b), "\n") {
		line = strings.TrimSpace(line)
		if line == "" || strings.HasPrefix(line, "#") {
			continue
		}
		var f finding
		switch {
		case strings.HasPrefix(line, "finding:"):
			f.kind = "finding"
			line = strings.TrimSpace(strings.TrimPrefix(line, "finding:"))
		case strings.HasPrefix(line, "fixed:"):
			f.kind = "fixed"
			line = strings.TrimSpace(strings.TrimPrefix(line, "fixed:"))
		default:
			continue
		}
		fields := strings.Fields(line)
		for len(fields) > 0 {
			if strings.HasPrefix(fields[0], "property=") {
				f.prop = strings.TrimPrefix(fields[0], "property=")
			} else if strings.HasPrefix(fields[0], "class=") {
				f.class = strings.ReplaceAll(strings.TrimPrefix(fields[0], "class="), "%20", " ")
			} else {
				break
			}
			fields = fields[1:]
		}
		f.rest = strings.Join(fields, " ")
		out = append(out, f)
	}
	return out
}

func matchKnown(known []finding, prop, class string) *finding {
	for i := range known {
		k := &known[i]
		if k.kind != "finding" || k.prop != prop {
			continue
		}
		if k.class == class || (strings.HasSuffix(k.class, "*") && strings.HasPrefix(class, strings.TrimSuffix(k.class, "*"))) {
			return k
		}
	}
	return nil
}

type confirmed struct {
	class, detail, path string
	known               *finding
	count               int
}

// knownReplays re-executes the replay files kept under known/<id>/:
//
//	fixed-*.json    a defect that was repaired by a "fix:" commit: must not fail any more
//	finding-*.json  a recorded defect: expected to fail with its class
func (s *supervisor) knownReplays(known []finding) (conf []confirmed, problems []string) {
	dir := filepath.Join(root, "known", s.id)
	ents, err := os.ReadDir(dir)
	if err != nil {
		return
	}
	var mu sync.Mutex
	var wg sync.WaitGroup
	sem := make(chan struct{}, s.nw)
	for _, e := range ents {
		if !strings.HasSuffix(e.Name(), ".json") {
			continue
		}
		name := e.Name()
		wg.Add(1)
		go func() {
			defer wg.Done()
			sem <- struct{}{}
			defer func() { <-sem }()
			path := filepath.Join(dir, name)
			rp := readReplay(path)
			if rp.Race && s.b.raceBin == "" {
				return
			}
			rep, class, detail, prob := s.replayOnce(path, rp, true)
			mu.Lock()
			defer mu.Unlock()
			if prob != "" {
				problems = append(problems, name+": "+prob)
				return
			}
			switch {
			case strings.HasPrefix(name, "fixed-"):
				if rep {
					conf = append(conf, confirmed{class: class, detail: "regression of a repaired defect (" + name + "): " + detail, path: path, count: 1})
				}
			default:
				if rep {
					conf = append(conf, confirmed{class: class, detail: detail, path: path, known: matchKnown(known, s.id, class), count: 1})
				} else {
					logf("vcheck %s: note: recorded finding %s no longer reproduces", s.id, name)
				}
			}
		}()
	}
	wg.Wait()
	return
}

func (s *supervisor) conclude(total BatchResult, t0 time.Time, writeEvidence bool) int {
	known := loadKnown()
	// group candidates by class, lowest index first
	byClass := map[string][]FoundViolation{}
	for _, v := range total.Violations {
		byClass[v.Class] = append(byClass[v.Class], v)
	}
	var classes []string
	for c := range byClass {
		classes = append(classes, c)
		sort.Slice(byClass[c], func(a, b int) bool { return byClass[c][a].Index < byClass[c][b].Index })
	}
	sort.Strings(classes)
	var conf []confirmed
	var mu sync.Mutex
	var wg sync.WaitGroup
	sem := make(chan struct{}, s.nw)
	machinery := ""
	outDir := filepath.Join(root, "replays", s.id)
	for _, cl := range classes {
		cl := cl
		if strings.HasPrefix(cl, "panic:harness") {
			// a panic with no goalign function on its stack is a defect of this machinery, not of goalign
			mu.Lock()
			if machinery == "" {
				machinery = fmt.Sprintf("the harness itself panicked (run %d, replay %s):\n%s", byClass[cl][0].Index, byClass[cl][0].Replay, tail(byClass[cl][0].Detail, 1500))
			}
			mu.Unlock()
			continue
		}
		wg.Add(1)
		go func() {
			defer wg.Done()
			sem <- struct{}{}
			defer func() { <-sem }()
			cands := byClass[cl]
			ok := false
			var problem string
			for k := 0; k < len(cands) && k < 3 && !ok; k++ {
				cand := cands[k]
				rp := readReplay(cand.Replay)
				rep, rclass, rdetail, prob := s.replayOnce(cand.Replay, rp, false)
				if prob != "" {
					problem = prob
					continue
				}
				if !rep {
					// not alone in a fresh process. After the runs its worker executed before it? Then goalign carries
					// state from one call to the next, and the history is the replay.
					if h, d := s.replayHistory(cand, rp); h != nil {
						hcl := "depends-on-earlier-calls:" + cl
						rp.History, rp.Class, rp.Detail, rp.Note = h, hcl, d, "reproduces only after the earlier runs of the same worker process: replayed as that sequence of runs"
						jb, _ := json.MarshalIndent(rp, "", " ")
						dst := filepath.Join(outDir, slug(hcl)+".json")
						os.MkdirAll(outDir, 0755)
						mu.Lock()
						os.WriteFile(dst, jb, 0644)
						conf = append(conf, confirmed{class: hcl, detail: d, path: dst, known: matchKnown(known, s.id, hcl), count: total.ClassCount[cl]})
						mu.Unlock()
						ok = true
						continue
					}
					problem = fmt.Sprintf("candidate %s (run %d) did not reproduce on replay", cl, cand.Index)
					continue
				}
				if rclass != cl {
					// reproduced as a different class (e.g. the first race of a fresh process): take the replayed one
					logf("vcheck %s: candidate %s replayed as %s", s.id, cl, rclass)
				}
				ok = true
				final := cand.Replay
				fclass, fdetail := rclass, rdetail
				kf := matchKnown(known, s.id, fclass)
				if kf == nil && !strings.HasPrefix(fclass, "procdeath:stall") {
					// shrink (recorded findings are not shrunk again; a stall costs the whole watchdog delay per attempt)
					if rclass != rp.Class {
						rp.Class, rp.Detail = rclass, rdetail
						jb, _ := json.MarshalIndent(rp, "", " ")
						os.WriteFile(cand.Replay, jb, 0644)
					}
					sj := Job{Property: s.id, Mode: "shrink", Tier: rp.Tier, Race: rp.Race, ReplayIn: cand.Replay}
					wr := s.spawn(sj, 8*time.Minute)
					if p := findShrunk(wr); p != "" {
						rp2 := readReplay(p)
						rep2, c2, d2, prob2 := s.replayOnce(p, rp2, true)
						if prob2 == "" && rep2 && c2 == fclass {
							final, fdetail = p, d2
						}
					}
				}
				dst := filepath.Join(outDir, slug(fclass)+".json")
				os.MkdirAll(outDir, 0755)
				data, _ := os.ReadFile(final)
				mu.Lock()
				dup := false
				for _, c := range conf {
					if c.class == fclass {
						dup = true
					}
				}
				if !dup {
					os.WriteFile(dst, data, 0644)
					conf = append(conf, confirmed{class: fclass, detail: fdetail, path: dst, known: kf, count: total.ClassCount[cl]})
				}
				mu.Unlock()
			}
			if !ok {
				mu.Lock()
				if machinery == "" {
					machinery = problem
				}
				mu.Unlock()
			}
		}()
	}
	wg.Wait()
	kconf, kprob := s.knownReplays(known)
	for _, kc := range kconf {
		dup := false
		for _, c := range conf {
			if c.class == kc.class && (c.known != nil) == (kc.known != nil) && !strings.HasPrefix(kc.detail, "regression") {
				dup = true
			}
		}
		if !dup {
			conf = append(conf, kc)
		}
	}
	if len(kprob) > 0 && machinery == "" {
		machinery = strings.Join(kprob, "; ")
	}
	sort.Slice(conf, func(a, b int) bool { return conf[a].class < conf[b].class })
	nviol := 0
	var knownHit []string
	for _, c := range conf {
		first := strings.SplitN(c.detail, "\n", 2)[0]
		if len(first) > 300 {
			first = first[:300]
		}
		if c.known != nil {
			fmt.Printf("KNOWN-FINDING: property=%s class=%s %s (runs=%d replay=%s)\n", s.id, c.class, c.known.rest, c.count, c.path)
			knownHit = append(knownHit, c.class)
		} else {
			nviol++
			fmt.Printf("VIOLATION property=%s replay=%s\n", s.id, c.path)
			fmt.Printf("  class=%s runs=%d\n  %s\n", c.class, c.count, first)
		}
	}
	wall := time.Since(t0).Seconds()
	if writeEvidence {
		s.writeEvidence(total, nviol, knownHit, wall)
	}
	if machinery != "" && nviol == 0 {
		die2("%s", machinery)
	}
	if nviol > 0 {
		return 1
	}
	fmt.Printf("OK property=%s tier=%s seed=%d runs=%d distinct_nontrivial=%d known_findings=%d wall=%.1fs\n", s.id, s.tier, s.seed, total.Runs, len(total.Sigs), len(knownHit), wall)
	return 0
}

// findShrunk locates the shrunk replay written by a shrink worker.
func findShrunk(wr workerRun) string {
	if wr.died || wr.stall || !wr.res.Complete {
		return ""
	}
	p := filepath.Join(wr.dir, "out.json.replay.json")
	if _, err := os.Stat(p); err != nil {
		return ""
	}
	return p
}

func (s *supervisor) writeEvidence(total BatchResult, nviol int, knownHit []string, wall float64) {
	cov := map[string]interface{}{
		"evaluations":         total.Runs,
		"distinct_nontrivial": len(total.Sigs),
		"rule":                total.Rule,
		"samples":             total.Samples,
		"engine":              s.cfg.engine,
		"components":          s.cfg.components,
		"counters":            total.Stats,
		"runs_per_hour":       int(float64(total.Runs) / wall * 3600),
		"nontrivial_runs":     total.Nontrivial,
		"candidate_classes":   total.ClassCount,
		"known_findings_hit":  knownHit,
		"seams":               s.b.seams["counts"],
		"workers":             s.nw,
		"simulated_time":      "goalign has no clock to advance; the unit of simulated progress is the scheduler step / delivered stream fragment / operation, see counters",
	}
	if total.EnumSize > 0 {
		done := total.Stats["exhaustive_sweep_cases"]
		cov["exhaustive_subspace"] = map[string]interface{}{"size": total.EnumSize, "executed": done, "complete": done >= int64(total.EnumSize),
			"note": "the enumerated sub-space (see rule) is swept completely; the rest of the run is seeded search, so coverage.exhaustive is not set"}
	}
	if len(total.Samples) == 0 {
		cov["samples"] = []interface{}{"(no sample recorded)"}
	}
	ev := map[string]interface{}{
		"property_id": s.id,
		"tier":        s.tier,
		"seed":        s.seed,
		"level":       s.cfg.level,
		"coverage":    cov,
		"assumptions": s.cfg.assumptions,
		"wall_s":      wall,
		"violations":  nviol,
	}
	b, _ := json.MarshalIndent(ev, "", " ")
	os.MkdirAll(filepath.Join(root, "evidence"), 0755)
	os.WriteFile(filepath.Join(root, "evidence", s.id+".json"), b, 0644)
}

func doReplay(b *builder, id, path string, rp Replay) int {
	s := &supervisor{b: b, id: id, cfg: b.cfg, tier: rp.Tier, nw: 1}
	if rp.History != nil {
		s.seed = rp.History.Seed
		idx := rp.History.Start + (rp.History.Count-1)*rp.History.Stride
		if ok, class, detail := s.runHistory(rp.History, rp.Tier, rp.Race, idx); ok {
			fmt.Printf("VIOLATION property=%s replay=%s\n  class=depends-on-earlier-calls:%s\n%s\n", id, path, class, detail)
			return 1
		}
		fmt.Printf("OK property=%s replay=%s did not fail\n", id, path)
		return 0
	}
	rep, class, detail, prob := s.replayOnce(path, rp, rp.Shrunk)
	if prob != "" {
		die2("%s", prob)
	}
	if rep {
		fmt.Printf("VIOLATION property=%s replay=%s\n  class=%s\n%s\n", id, path, class, detail)
		return 1
	}
	fmt.Printf("OK property=%s replay=%s did not fail\n", id, path)
	return 0
}
