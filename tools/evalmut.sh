#!/bin/bash
# evalmut.sh <agent-worktree> <seeded-id> <property> [tier]
# Confirms a seeded change (suite green with it, demo red with it and green without it),
# stores it under /verif/seeded/<id>/ and runs the property's check against it.
set -u
export GOFLAGS=-mod=mod GOPROXY=off GOSUMDB=off GOTOOLCHAIN=local
wt=$1; id=$2; prop=$3; tier=${4:-quick}
dst=/verif/seeded/$id
mkdir -p $dst
cd $wt || exit 2
# the source change alone
git diff -- . ':(exclude)*verifdemo*' ':(exclude)demo' ':(exclude)MUTATION.md' ':(exclude)patch.diff' > $dst/patch.diff
demos=$(git status --porcelain | grep -E 'verifdemo|^\?\? demo' | awk '{print $2}')
echo "demo files: $demos"
mkdir -p $dst/demo
for d in $demos; do mkdir -p $dst/demo/$(dirname $d); cp -r $d $dst/demo/$d; done
cp MUTATION.md $dst/ 2>/dev/null
# 1. suite green with the change (demo moved away)
stash=$(mktemp -d)
for d in $demos; do mkdir -p $stash/$(dirname $d); mv $d $stash/$d; done
go build ./... && go test -vet=off -count=1 ./... > $dst/suite_with_change.log 2>&1
echo "suite with change: exit $? ($(grep -c '^ok' $dst/suite_with_change.log) ok, $(grep -c '^FAIL\|^--- FAIL' $dst/suite_with_change.log) fail)"
for d in $demos; do mv $stash/$d $d; done
rm -rf $stash
echo "patch: $(grep -c '^[+-][^+-]' $dst/patch.diff) changed lines in $(grep -c '^diff' $dst/patch.diff) files"
# 2. demo red with the change, green without
pkg=${5:-}
if [ -n "$pkg" ]; then
  timeout 600 go test -vet=off -count=1 -run 'VerifDemo' $pkg > $dst/demo_with_change.log 2>&1; echo "demo with change: exit $?"
  git apply -R $dst/patch.diff
  timeout 600 go test -vet=off -count=1 -run 'VerifDemo' $pkg > $dst/demo_without_change.log 2>&1; echo "demo without change: exit $?"
  git apply $dst/patch.diff
fi
# 3. the check against the change, applied to /repo and undone straight afterwards
cd /verif
if ! git -C /repo diff --quiet; then echo "/repo is dirty, not applying"; exit 2; fi
git -C /repo apply $dst/patch.diff || exit 2
timeout 1500 bin/vcheck $prop --tier $tier --no-evidence > $dst/check_$prop.log 2>&1; rc=$?
git -C /repo checkout -- .
echo "check $prop ($tier) against the change: exit $rc"
grep -E "^VIOLATION|^KNOWN|^OK|MACHINERY" $dst/check_$prop.log | head -8
grep -A2 "^VIOLATION" $dst/check_$prop.log | grep "class=" | head -5
