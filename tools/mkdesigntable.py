#!/usr/bin/env python3
# regenerates the seeded-change table of DESIGN.md (between the two markers) from seeded/*/meta.json
import json,glob,re
rows=[json.load(open(d)) for d in sorted(glob.glob('/verif/seeded/*/meta.json'))]
tab="| id | property | change | needs | outcome |\n|---|---|---|---|---|\n"
kept=missed=rej=0
for m in rows:
    st=m.get('status','kept')
    if st.startswith('rej'): rej+=1
    else:
        kept+=1
        if 'MISSED' in m['caught_by']: missed+=1
    e=lambda s:s.replace('|','\\|').replace('\n',' ')
    tab+="| %s | %s | %s | %s | %s |\n"%(m['id'],m['property'],e(m['summary']),e(m['needs']),(('**'+st+'** - ') if st.startswith('rej') else '')+e(m['caught_by']))
summary="%d changes delivered; %d break their property as stated (%d caught by the quick tier as it stood when the change arrived, %d missed at first and caught after the check was strengthened); %d rejected as not violating the statement.\n"%(len(rows),kept,kept-missed,missed,rej)
p='/verif/DESIGN.md'
s=open(p).read()
b,e='<!-- seeded-table-begin -->','<!-- seeded-table-end -->'
new=b+'\n'+tab+'\n'+summary+e
if b in s:
    s=s[:s.index(b)]+new+s[s.index(e)+len(e):]
else:
    # first time: replace the old table (from the header line to the line before "Summary:")
    i=s.index('| id | property | change | needs | outcome |')
    j=s.index('Summary: 32 of 33')
    s=s[:i]+new+'\n\n'+s[j:]
open(p,'w').write(s)
print(summary)
